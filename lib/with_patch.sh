#!/bin/bash
# usage: with_patch.sh [-R] <patch> <timeout_s> <command...>
# applies (or reverse-applies) a patch to /repo, runs the command under a timeout and ALWAYS restores /repo.
REV=""
if [ "$1" = "-R" ]; then REV="-R"; shift; fi
PATCH="$1"; TMO="$2"; shift 2
cd /repo || exit 2
if [ -n "$(git status --porcelain)" ]; then echo "with_patch: /repo is not clean" >&2; exit 2; fi
restore() { git -C /repo checkout -- . ; git -C /repo clean -fdq src tests 2>/dev/null; }
trap restore EXIT INT TERM
git apply $REV "$PATCH" || { echo "with_patch: patch does not apply" >&2; exit 2; }
cd /verif
timeout -k 5 "$TMO" "$@"
RC=$?
exit $RC
