#!/bin/bash
# usage: try_seeded.sh <patch.diff> <Cxx> [tier] ; runs ./check Cxx against /repo with the patch applied
PATCH="$1"; PROP="$2"; TIER="${3:-quick}"
/verif/lib/with_patch.sh "$PATCH" 1500 ./check "$PROP" --tier "$TIER"
