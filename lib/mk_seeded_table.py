#!/usr/bin/env python3
"""Regenerates section 11 of DESIGN.md from /verif/seeded/*/{meta,result}.json"""
import json, os
p = '/verif/DESIGN.md'
s = open(p).read()
marker = "## 11. Seeded changes"
if marker in s:
    s = s[:s.index(marker)]
rows = []
for d in sorted(os.listdir('/verif/seeded')):
    m = json.load(open('/verif/seeded/%s/meta.json' % d))
    rp = '/verif/seeded/%s/result.json' % d
    r = json.load(open(rp)) if os.path.exists(rp) else {}
    det = m.get('detection', {})
    caught = [k.split(':')[0] + ' (' + ', '.join(v['signatures'][:2]) + ')' for k, v in r.items() if v['caught'] and ':seed' not in k]
    hist = ('missed at first — ' + det.get('what_was_strengthened', '')) if det.get('first_run') == 'missed' else 'caught by the check as it was'
    if m.get('neutralised_by_fix'):
        hist += ' — NOTE: since fix %s this change no longer alters behaviour (%s)' % (m['neutralised_by_fix']['commit'], m['neutralised_by_fix']['why'][:200])
    rows.append("| %s | %s | %s | %s | %s |" % (d, m['property'], m['summary'].replace('|', '/')[:260], '; '.join(caught)[:300] or 'NOT CAUGHT', hist))
text = marker + """ and which checks catch them

Fresh sub-agents were given only the text of one property and a private scratch worktree of
/repo (nothing from /verif) and asked for a change that compiles, passes the 38 tests and breaks
the property only under a specific input / interleaving / sequence, with a demonstration. Every
change listed here was confirmed by me in the scratch worktree (`lib/confirm_seeded.sh`: the
demonstration passes without the change and fails with it, the existing suite passes with it),
is kept under `/verif/seeded/<id>/` (patch.diff, demo/, meta.json, result.json) and was run
against the checks with `lib/eval_seeded.py` (apply to /repo, run the owning quick check, restore).
A miss was answered by more workload/observability, never by a stricter oracle; the strengthened
check was then re-run on the unchanged tree at several seeds. Round a: one change per property;
round b: a second change per property, with the first one declared "already taken"; round c: a
third one, both earlier ideas declared taken; round d: a fourth, three ideas declared taken; round e: a fifth; round f: a sixth; round g: a seventh (run without reading the descriptions first: 9 of 20 missed); round h: an eighth (descriptions read while the first runs were already going; 8 of 20 missed by the checks as they were, one more — C05-h — would have been and was strengthened before its run); round i: a ninth change for eight properties only (C02, C03, C04, C06, C10, C12, C16, C19; run without reading the descriptions first: 6 of 8 caught as they were). From round d on I read the
description of a change before running the checks against it and, where I could see that no workload
reached it, strengthened first; those rows say "strengthened ... before the first run". After every round of strengthening all kept changes
are re-run (`lib/eval_all_seeded.sh`) to make sure nothing that was caught is lost again; the last
complete re-run was done at VERIF_SEED=1 and at VERIF_SEED=2 (every change that still alters behaviour
was caught by its owning quick check at both seeds; results under `seeded/<id>/result.json`).

| id | property | change | caught by (first signatures) | history |
|---|---|---|---|---|
""" + "\n".join(rows) + """

Two of the round-a misses paid twice: the zero-length reads added for C09-a exposed a defect in
my own repair of F3 (follow-up fix `aca35d0`), and the hostile TE weights added for C14-a exposed
the genuine defect F10 (`2881f0e`: a NaN weight scrambles the TE preference order). In round d the
keep-open trials added for C06-d exposed the genuine defect F11 (`47db075`: a raw response writer
dropped without an explicit flush left its response in the connection's buffer). Two kept changes
no longer alter behaviour on the repaired tree (C14-a since F10, C06-d since F11); their rows say so
and show the result obtained on the tree of their time.
"""
s = s.rstrip('\n') + "\n\n" + text
open(p, 'w').write(s)
print(len(rows), 'rows')
