#!/usr/bin/env python3
"""keep_seeded.py <worktree> <name>: copy a confirmed seeded change into /verif/seeded/<name>/"""
import json, os, shutil, sys, subprocess
w, name = sys.argv[1], sys.argv[2]
dst = os.path.join('/verif/seeded', name)
os.makedirs(dst, exist_ok=True)
shutil.copy(os.path.join(w, 'OUT/patch.diff'), os.path.join(dst, 'patch.diff'))
if os.path.isdir(os.path.join(dst, 'demo')):
    shutil.rmtree(os.path.join(dst, 'demo'))
shutil.copytree(os.path.join(w, 'OUT/demo'), os.path.join(dst, 'demo'))
meta = json.load(open(os.path.join(w, 'OUT/meta.json')))
conf = {}
for k in ('confirm_without.log', 'confirm_with.log', 'confirm_suite.log'):
    p = os.path.join(w, 'OUT', k)
    if os.path.exists(p):
        txt = open(p, errors='replace').read()
        lines = [l for l in txt.splitlines() if l.startswith('test result') or 'FAILED' in l or 'panicked' in l]
        conf[k] = lines[-12:]
meta['confirmed_by_me'] = {
    'how': 'lib/confirm_seeded.sh in the scratch worktree: demo without the change (must pass), demo with the change (must fail), existing suite with the change and the demo moved aside (must pass)',
    'logs': conf,
}
meta['breaks_property'] = meta.get('property')
json.dump(meta, open(os.path.join(dst, 'meta.json'), 'w'), indent=1)
print('kept', dst)
