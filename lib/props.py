"""Per-property run plans: budgets, engines, evidence rule text, assumptions."""

COMMON_ASSUME = [
    "the real tiny_http crate is built from /repo's working tree with --cfg tiny_http_verif (hooks are add-only and off in normal builds)",
    "loopback TCP / UNIX sockets of this Linux kernel stand for the network",
    "held on the executions observed; nothing is claimed about schedules or inputs that were not produced",
]


def plan(level, rule, quick_ms, thorough_ms, assumptions=None, miri=None, sanitizers=None, hard=None, shards=16):
    d = {
        "level": level,
        "rule": rule,
        "budget_ms": {"quick": quick_ms, "thorough": thorough_ms},
        "assumptions": COMMON_ASSUME + (assumptions or []),
        "shards": shards,
    }
    if miri:
        d["miri"] = miri
    if sanitizers:
        d["sanitizers"] = sanitizers
    if hard:
        d["hard_timeout_s"] = hard
    return d


def miri(scenarios, q, t, per=4, preemption="0.02", tq=600, tt=3000):
    return {"scenarios": scenarios, "seeds": {"quick": q, "thorough": t}, "seeds_per_process": per,
            "preemption": preemption, "timeout_s": {"quick": tq, "thorough": tt}}


PROPS = {
    "C01": plan("exploration",
                "one trial = one pipelined connection (2..8 requests) answered by seeded handler threads (gate/immediate/single-thread schedules, respond/raw writer/drop/empty writer, failpoint delays); the whole response stream is parsed by the independent client parser and every message must carry the id and body of the request at its position. distinct = (n, action tuple, schedule); non-trivial = handlers started answering in an order different from request order or on several threads",
                12000, 240000, miri=miri(["seqwriter"], 8, 128), sanitizers=["thread"]),
    "C02": plan("exploration",
                "one case = a pipeline of 1..4 grammar-generated heads (standard and extension methods, targets up to 9000 bytes, 0..64 headers, OWS padding, TCP and UNIX); delivered method/target/version/header list/peer address compared field by field with the abstract request. distinct = (transport, method class, header-count bucket, head-length bucket, version) tuple of the pipeline; every case non-trivial",
                10000, 240000, sanitizers=["address"]),
    "C03": plan("exploration",
                "one case = a body-bearing request (none / Content-Length from a size list / chunked with random chunking, hex case, leading zeros, extensions / CL+TE / upgrade) read with a seeded sequence of buffer sizes until Ok(0) plus 3 more reads, followed by a pipelined sentinel; bytes, EOF position, body_length() and the sentinel are compared with the framing reference. distinct = (framing kind, length bucket, read-size classes)",
                10000, 240000, miri=miri(["framing"], 4, 32, per=2), sanitizers=["address"]),
    "C04": plan("exploration",
                "pure cases: Response::raw_print into a Vec parsed by the independent RFC 7230 client parser (status, body, self-delimitation, no bytes for HEAD/1xx/204/304); native cases: HEAD/GET/POST through real connections followed by a second request. distinct = (status class, length bucket, declared?, threshold class, version, HEAD, TE class, piece size) resp. the native parameter tuple",
                8000, 180000),
    "C05": plan("exploration",
                "the full grid version x status x length x threshold x TE value x HEAD x upgrade is executed completely on the real raw_print and compared with a set-valued reference decision; then random TE strings. distinct = grid/random parameter tuple; non-trivial = the statement determines a single coding (two-element admissible sets are counted as trivial)",
                3000, 120000),
    "C06": plan("exploration",
                "one trial = pipeline of 1..6 requests (bodies none/small/>1024/chunked, read none/part/all) finished by respond / raw writer / upgrade / drop / panic on seeded threads; the client must see exactly one final message per request with the status the action predicts. distinct = (n, per-request body:read:action, schedule); every trial non-trivial",
                12000, 240000, miri=miri(["request_once"], 8, 64), sanitizers=["thread"]),
    "C07": plan("exploration",
                "one trial = P connections x m requests against C receiver threads mixing recv/recv_timeout/try_recv/incoming_requests with leave/loop policies; multiset of delivered ids = sent ids, single-receiver order, and a stuck detector over queue snapshots taken under the queue mutex, confirmed by an unblock() kick. distinct = (P, C, call kinds, leave policies); non-trivial = more than one receiver or connection",
                15000, 300000, miri=miri(["queue"], 16, 256), sanitizers=["thread"]),
    "C08": plan("exploration",
                "one trial = a burst of N in {2,4,5,6,8,16,40} keep-alive connections (barrier / staggered / two waves) against a worker pool in a seeded pre-state; every connection must be answered while all stay open, a stalled one is confirmed by closing another connection. distinct = (pre-state, N, pattern, task-queued?); every trial non-trivial",
                15000, 300000, miri=miri(["pool_burst", "pool_retire_race"], 8, 96, per=2), sanitizers=["thread"]),
    "C09": plan("exploration",
                "one case = body-bearing request (CL buffered / CL streamed / chunked; hostile body bytes spelling requests) consumed to a seeded prefix and finished by respond/drop/raw writer, followed by 1..3 requests; the delivered sequence must equal the sent sequence. distinct = (framing, length, consumption class, finish); non-trivial = body not read to EOF; Miri: the request object alone (framing scenario: body consumed fully / half / not at all, then dropped; the source must be positioned at the first byte after the body)",
                10000, 240000, miri=miri(["framing"], 8, 64)),
    "C10": plan("exploration",
                "one case = pipeline of 1..4 with one malformed/unsupported request (request-line fields, version token, header without colon, non-ASCII byte, Expect value) at a seeded position, earlier requests answered at once or held 50 ms; delivery set, status sequence and termination compared with the statement, stalls confirmed by a control connection. distinct = (class incl. token, position, length, hold)",
                10000, 240000),
    "C11": plan("exploration",
                "program A: all-small pipeline of 2..8 collected while answering none (kick: answer the oldest); program B: large/chunked bodies read to Ok(0), answered unread or dropped, successor must appear. distinct = (program, n, body-kind tuple, action tuple)",
                12000, 240000, miri=miri(["seqreader"], 8, 96), sanitizers=["thread"]),
    "C12": plan("exploration",
                "one case = version x Connection header value at every position of a pipeline of 1..4, followed by further requests/garbage, with server-side close, client half-close, late request on a persistent connection or half-close after request j; delivery set, responses and EOF compared with the persistence reference. distinct = (per-request version:Connection value, mode, tail, end position)",
                10000, 240000),
    "C13": plan("exploration",
                "metamorphic: conversations from the generators of C02/C03/C09/C10/C12/C16 are delivered in one write and in every single split, byte by byte and random k-way splits, each segment sent after the server consumed the previous one; canonical observation (delivered heads, bodies, responses) must be identical. distinct = (conversation, split vector); non-trivial = the server's read sizes really differed from the baseline's",
                12000, 300000),
    "C14": plan("exploration",
                "adversarial cases (declared lengths up to 10^30, chunk-size lines up to 40 digits, 10000 headers, long lines, NUL/control/non-ASCII bytes, garbage, odd framing, truncation) x handler (read none/1/all; respond/drop/raw writer) x client end (close/reset/half-close), run one at a time in child processes with a counting allocator, a panic hook and BEGIN/END side files. distinct = (case class incl. declared value, first plan, client end)",
                12000, 240000, sanitizers=["address"]),
    "C15": plan("fault_enumeration",
                "for every conversation of a fixed corpus (all framing kinds) EVERY prefix length k in 0..=len is cut by half-close, close and reset (3 x (len+1) runs per conversation, enumerated completely), then a response-side matrix (client gone before / during / not reading a response up to 4 MiB). distinct = (conversation, k, fault) resp. response-side parameter tuple; every run non-trivial",
                15000, 300000, hard={"quick": 600, "thorough": 2400}),
    "C16": plan("exploration",
                "one case = pipeline of 1..4 where one head carries whitespace at the start of a header line / inside a name / before the colon (Content-Length, Transfer-Encoding, other headers) or a non-decimal/overflowing Content-Length (with and without Transfer-Encoding), followed by bytes laid out so that each misreading exposes a /smuggled/ request. distinct = (mutation, header, value class, position, length)",
                10000, 240000),
    "C17": plan("exploration",
                "four sub-workloads: A blocked recv receivers vs u unblocks and p requests; B known queue contents consumed by a seeded mix of the four calls against a FIFO reference model; C free race then quiescence (no token queued while a receiver is blocked; b unblocks release b receivers); T empty-handed recv_timeout(T) elapsed within [T-1.5ms, 2T+slack] with stolen wake-ups, try_recv never blocks. distinct = sub-workload parameter tuple",
                15000, 300000, miri=miri(["queue_unblock", "queue_timing"], 16, 256), sanitizers=["thread"]),
    "C18": plan("exploration",
                "one case = (Expect: 100-continue in random case | absent) x body length {0,5,1024,1025,20000} x program {no as_reader, once, many, partial} x 0..2 predecessors; the client withholds the body until it parsed the interim response; count and position of 100 responses, arrival time vs the application's first as_reader call, and the body read are checked. distinct = (expectation, length, program, predecessors, chunked)",
                10000, 200000),
    "C19": plan("exploration",
                "pure cases: header lists from a pool of protected/special/ordinary names (any case, duplicates, via constructor / add_header / with_header), all constructors incl. multi-byte from_string and from_file, with_data, with_status_code, boxed; getters and the wire header block compared with the reference policy, Date parsed by an independent IMF-fixdate parser. distinct = (constructor, sorted name multiset, protected positions, with_data, version); non-trivial = at least one header supplied",
                5000, 120000),
    "C20": plan("exploration",
                "(a) drop(server) at a seeded moment with handed-out / queued requests and connecting clients on own loopback addresses and UNIX paths: refusal within the bound and stable, path removed, handed-out requests answered; (b) library thread counts before a burst, at the peak, 7 s after closing, after a second burst and 7 s after drop. distinct = parameter tuple; non-trivial for (b) = the burst really created threads",
                17000, 300000, miri=miri(["pool_retire", "pool_retire_race"], 6, 64, per=2), hard={"quick": 300, "thorough": 1500}),
}
