#!/bin/bash
# usage: confirm_seeded.sh <worktree dir> ; confirms in that scratch worktree that
#   (1) the demo passes without the change, (2) fails with it, (3) the existing suite passes with it.
# prints one line: CONFIRM <dir> demo_without=<rc> demo_with=<rc> suite_with=<rc>
W="$1"
cd "$W" || exit 2
PATCH="$W/OUT/patch.diff"
CMD=$(python3 -c "import json;print(json.load(open('$W/OUT/meta.json'))['demo_cmd'])")
git checkout -q -- src 2>/dev/null
timeout 400 bash -c "$CMD" > "$W/OUT/confirm_without.log" 2>&1; A=$?
git apply "$PATCH" || { echo "CONFIRM $W patch-does-not-apply"; exit 1; }
timeout 400 bash -c "$CMD" > "$W/OUT/confirm_with.log" 2>&1; B=$?
# existing suite with the change, demo moved aside
mkdir -p "$W/OUT/aside"
for f in tests/demo_* examples/demo_*; do [ -e "$f" ] && mv "$f" "$W/OUT/aside/"; done
( timeout 900 cargo test --workspace --no-fail-fast --offline ) > "$W/OUT/confirm_suite.log" 2>&1; C=$?
for f in "$W"/OUT/aside/*; do
  [ -e "$f" ] || continue
  case "$(basename $f)" in *.rs) if grep -q "fn main" "$f" && ! grep -q "#\[test\]" "$f"; then mv "$f" examples/; else mv "$f" tests/; fi;; *) mv "$f" tests/;; esac
done
echo "CONFIRM $W demo_without=$A demo_with=$B suite_with=$C"
