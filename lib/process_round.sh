#!/bin/bash
# usage: process_round.sh <prefix> [NN ...] ; confirms the finished scratch worktrees /tmp/mut/<prefix>NN
# (five at a time), keeps the confirmed ones as seeded/C<NN>-<prefix> and prints one line per worktree.
P="$1"; shift
NNS="${@:-$(ls /tmp/mut | grep "^$P" | sed "s/^$P//")}"
for n in $NNS; do echo /tmp/mut/$P$n; done | xargs -P 5 -I{} /verif/lib/confirm_seeded.sh {} > /tmp/mut/confirm_$P.log 2>&1
cat /tmp/mut/confirm_$P.log
grep 'demo_without=0 demo_with=[1-9][0-9]* suite_with=0' /tmp/mut/confirm_$P.log | while read _ d _; do
  n=$(basename $d | sed "s/^$P//")
  python3 /verif/lib/keep_seeded.py $d C$n-$P
done
