#!/bin/bash
# re-evaluates every kept seeded change against its owning quick check (sequentially; uses /repo)
cd /verif
for d in seeded/*/; do
  n=$(basename $d)
  python3 lib/eval_seeded.py $n
done
