#!/usr/bin/env python3
"""eval_seeded.py <name> [prop ...] [--tier quick]: run the owning check(s) against /repo with the seeded patch
applied (always restored afterwards) and record the outcome in /verif/seeded/<name>/result.json"""
import json, os, re, subprocess, sys, time
args = [a for a in sys.argv[1:] if not a.startswith('--')]
tier = 'thorough' if '--thorough' in sys.argv else 'quick'
name = args[0]
d = os.path.join('/verif/seeded', name)
meta = json.load(open(os.path.join(d, 'meta.json')))
props = args[1:] or [meta['property']]
res_path = os.path.join(d, 'result.json')
res = json.load(open(res_path)) if os.path.exists(res_path) else {}
for prop in props:
    t = time.time()
    r = subprocess.run(['/verif/lib/with_patch.sh', os.path.join(d, 'patch.diff'), '2400', './check', prop, '--tier', tier],
                       cwd='/verif', stdout=subprocess.PIPE, stderr=subprocess.PIPE, text=True)
    sigs = re.findall(r'^\s+(C\d+/\S+): (.*)$', r.stdout, re.M)
    seed = os.environ.get('VERIF_SEED', '1')
    res[prop + ':' + tier + ('' if seed == '1' else ':seed' + seed)] = {
        'exit': r.returncode,
        'caught': r.returncode == 1,
        'signatures': [s[0] for s in sigs][:12],
        'first': sigs[0][1][:300] if sigs else '',
        'summary': r.stdout.splitlines()[0] if r.stdout else r.stderr[-300:],
        'wall_s': round(time.time() - t, 1),
    }
    print(name, prop, tier, 'seed', seed, 'exit', r.returncode, [s[0] for s in sigs][:4])
json.dump(res, open(res_path, 'w'), indent=1)
# /repo must be clean again
st = subprocess.run(['git', '-C', '/repo', 'status', '--porcelain'], stdout=subprocess.PIPE, text=True).stdout
if st.strip():
    print('WARNING: /repo not clean:', st)
