#!/usr/bin/env python3
"""Writes /verif/MANIFEST.json from lib/props.py (kept in one place so it stays consistent)."""
import json, os, subprocess, sys
ROOT = os.path.dirname(os.path.dirname(os.path.abspath(__file__)))
sys.path.insert(0, os.path.join(ROOT, "lib"))
from props import PROPS

LEVEL_TEXT = {
    "C01": "Response order/interleaving is judged on every byte the client receives, over thousands of seeded handler schedules with failpoint delays between the library's critical sections, plus the turn-token component under Miri's seeded preemptive scheduler. Sampling of schedules, not enumeration.",
    "C02": "Field-by-field comparison of delivered heads with generated abstract requests over tens of thousands of grammar-derived heads per run (TCP and UNIX). Inputs are sampled from the grammar the statement quantifies over.",
    "C03": "Body bytes, EOF position, body_length() and the following pipelined request are compared with an independent framing reference for seeded framings x read-size sequences; the framing component also runs under Miri (UB in decoder/ascii).",
    "C04": "Every raw_print output is parsed by an independent RFC 7230 client parser (hundreds of thousands of generated responses per run) and real HEAD/GET conversations prove self-delimitation by a following request.",
    "C05": "The finite decision grid (about 10^5 cases) is executed completely against a set-valued reference written from the statement; random TE strings on top. exhaustive=true refers to that grid only.",
    "C06": "Exactly-one-final-response is judged on the parsed response stream for seeded handler programs (respond, raw writer, upgrade, drop, panic) on seeded threads; component variant under Miri.",
    "C07": "Exactly-once delivery is checked offline over unambiguous histories (unique request ids); lost wake-ups are detected by queue snapshots taken under the queue's own mutex and confirmed by the kick the property names (unblock); the queue component runs under Miri with a virtual clock where the verdict is load-independent.",
    "C08": "Bursts around and far above the pool minimum against seeded pool pre-states on the real server; a stalled connection is confirmed by closing another connection (the forbidden dependency). Pool component under Miri's scheduler.",
    "C09": "Delivered request sequence after partially/un-read bodies compared with the sent sequence; hostile bodies spell requests so a framing slip delivers an id that was never sent.",
    "C10": "Every malformed class at every pipeline position; delivery set, status sequence, termination and promptness (stall oracle with control connection) compared with the statement.",
    "C11": "Read-ahead is observed at the API boundary (requests obtainable while none answered); a missing successor is confirmed by answering the oldest request (the forbidden dependency).",
    "C12": "Persistence reference from the statement vs. observed delivery set, responses and EOF for version x Connection value x position, with half-close and late requests.",
    "C13": "Metamorphic: same bytes, thousands of segmentations per run with consumption-paced segments (FP_SOCK_READ), canonical observations must be identical.",
    "C14": "Adversarial inputs run one at a time in child processes; abort = process death named by a side file, panics by a panic hook, allocation by a counting allocator that charges library threads and library calls.",
    "C15": "Every prefix length x {half-close, close, reset} of every corpus conversation is enumerated (complete per conversation), plus a response-side fault matrix; oracle on delivery set, respond results, termination of body reads, panics and continued service.",
    "C16": "Each smuggling-enabling syntax at every pipeline position with byte layouts that expose each misreading as a delivered /smuggled/ request; must be 400 + close, nothing delivered.",
    "C17": "Counting oracle (n unblocks release n receivers), FIFO reference model for queued tokens/requests, stuck-token detector with kick, and timing bounds; queue component under Miri with virtual clock for exact bounds.",
    "C18": "Client withholds the body until it has parsed the interim response; number/position of 100 responses, arrival time vs first as_reader call and the body read are checked.",
    "C19": "Reference header policy vs getters and the wire header block for generated header lists and all constructors; Date checked by an independent IMF-fixdate parser.",
    "C20": "Refusal after drop, socket path removal and answerability of handed-out requests on own loopback addresses; library thread counts around bursts and after drop; pool retirement under Miri's virtual clock.",
}

def main():
    hooks_commits = subprocess.run(["git", "-C", "/repo", "log", "--format=%H %s"], capture_output=True, text=True).stdout.splitlines()
    hook_ids = [l.split()[0] for l in hooks_commits if "verif hook" in l]
    checks = []
    for pid in sorted(PROPS):
        p = PROPS[pid]
        eng = ["native"] + (["miri"] if p.get("miri") else []) + (["san-" + s for s in p.get("sanitizers", [])])
        checks.append({
            "property_id": pid,
            "quick_cmd": "./check %s --tier quick" % pid,
            "thorough_cmd": "./check %s --tier thorough" % pid,
            "evidence_file": "/verif/evidence/%s.json" % pid,
            "replay_cmd_template": "./check %s --replay {path}" % pid,
            "engine": "+".join(eng),
            "level_claimed": {"category": p["level"], "text": LEVEL_TEXT[pid], "design_ref": "DESIGN.md section 5, %s" % pid},
            "level_note": "Trusted base: the harness's independent parsers/reference models (harness/src/httpc.rs, model.rs, per-property oracles), the Linux loopback stack, Miri's scheduler/clock model for the component runs. Verdicts are three-valued; inconclusive runs are reported, never counted as held or violated.",
            "technique": "runtime monitoring: " + {
                "C01": "client-side stream oracle over seeded handler schedules + failpoint delays; Miri on the turn-token component; TSan rebuild (thorough)",
                "C02": "differential oracle: delivered head vs generated abstract request; ASan rebuild (thorough)",
                "C03": "reference-model monitor on body reads; Miri on framing component; ASan rebuild (thorough)",
                "C04": "independent client parser as online checker over generated responses (pure + real sockets)",
                "C05": "complete execution of the finite decision grid against a set-valued reference",
                "C06": "exactly-once checker over parsed response streams; Miri component; TSan rebuild (thorough)",
                "C07": "offline exactly-once/order checker over event logs + hooked queue snapshots + stall oracle with unblock kick; Miri virtual clock; TSan (thorough)",
                "C08": "stall oracle with close-another-connection kick over burst workloads; Miri on the pool; TSan (thorough)",
                "C09": "sequence oracle with hostile bodies; Miri on the request object (boundary after drop)",
                "C10": "classification reference + stall oracle with control connection",
                "C11": "API-boundary availability monitor + stall oracle with answer-oldest kick; TSan (thorough)",
                "C12": "persistence reference model vs observed delivery/EOF",
                "C13": "metamorphic monitor over segmentations paced by a socket-read hook",
                "C14": "child processes + side files (abort), panic hook, counting allocator; ASan rebuild (thorough)",
                "C15": "fault enumeration of every cut point x fault kind on real sockets",
                "C16": "rejection oracle with smuggling-revealing byte layouts",
                "C17": "counting oracle, FIFO reference model, stuck-token detector, timing bounds; Miri virtual clock; TSan (thorough)",
                "C18": "client-side interim-response monitor with arrival-time vs as_reader ordering",
                "C19": "reference header-policy monitor over generated header lists",
                "C20": "refusal/thread-count monitors; Miri virtual clock on pool retirement",
            }[pid],
        })
    m = {
        "version": 1,
        "setup_cmd": "./check --setup",
        "hooks": {
            "guard": "tiny_http_verif",
            "enable": "RUSTFLAGS=\"--cfg tiny_http_verif --check-cfg cfg(tiny_http_verif)\" (set by ./check for every build of harness/ and miri/, which path-depend on /repo)",
            "baseline_off_cmd": "cd /repo && cargo test --workspace --no-fail-fast --offline",
            "source_commits": hook_ids,
            "add_only": True,
        },
        "engines": [
            {"name": "native", "path": "/verif/harness", "serves_properties": sorted(PROPS), "kind_free_text": "release build of the harness `vh` (overflow-checks + debug-assertions on) against the real crate; real loopback TCP/UNIX sockets; 16 worker processes with seeded CPU affinity, spinners and failpoint delays; monitors at the client socket and the public API"},
            {"name": "pure", "path": "/verif/harness/src/p04.rs p05.rs p19.rs", "serves_properties": ["C04", "C05", "C19"], "kind_free_text": "Response::raw_print into a Vec<u8>, checked by the independent client parser / reference models"},
            {"name": "miri", "path": "/verif/miri", "serves_properties": [p for p in sorted(PROPS) if PROPS[p].get("miri")], "kind_free_text": "component scenarios (MessagesQueue, TaskPool, Sequential writers, new_request) under cargo +nightly miri run with -Zmiri-many-seeds: seeded preemptive scheduler, deadlock detector, virtual clock, UB detection"},
            {"name": "san", "path": "/verif/harness (rebuilt)", "serves_properties": [p for p in sorted(PROPS) if PROPS[p].get("sanitizers")], "kind_free_text": "thorough tier only: the same harness and oracles rebuilt with -Zsanitizer=thread (-Zbuild-std) or -Zsanitizer=address; sanitizer reports are recorded in evidence"},
        ],
        "checks": checks,
        "notes": "VERIF_SEED and VERIF_TIER are honoured. Known findings: /verif/KNOWN_FINDINGS.txt. Witnesses: /verif/replays/. See DESIGN.md.",
        "not_applicable": [],
    }
    with open(os.path.join(ROOT, "MANIFEST.json"), "w") as f:
        json.dump(m, f, indent=1)
    print("MANIFEST.json written:", len(checks), "checks,", len(hook_ids), "hook commits")

if __name__ == "__main__":
    main()
