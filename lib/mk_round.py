#!/usr/bin/env python3
"""mk_round.py <letter-prefix> [ids...]: creates scratch worktrees /tmp/mut/<prefix>NN of /repo, each with
OUT/PROPERTY.txt (the text of one property plus the ideas already taken in earlier rounds) and prints the
prompt for the sub-agent of each."""
import json, os, subprocess, sys
prefix = sys.argv[1]
ids = sys.argv[2:] or ['C%02d' % i for i in range(1, 21)]
props = {json.loads(l)['id']: json.loads(l) for l in open('/verif/properties.jsonl')}
tmpl = open('/verif/lib/PROMPT_TEMPLATE.txt').read()
os.makedirs('/tmp/mut', exist_ok=True)
for pid in ids:
    d = '/tmp/mut/%s%s' % (prefix, pid[1:])
    if not os.path.isdir(d):
        subprocess.run(['git', '-C', '/repo', 'worktree', 'add', '-q', '--detach', d, 'HEAD'], check=True)
    os.makedirs(d + '/OUT/demo', exist_ok=True)
    p = props[pid]
    txt = "PROPERTY %s: %s\n\nSTATEMENT\n%s\n\nQUANTIFIED OVER: %s\n%s\n\nWHY THE EXISTING TESTS CANNOT SETTLE IT\n%s\n\nCODE THE PROPERTY IS ANCHORED IN\n%s\n" % (
        pid, p['title'], p['statement'], ', '.join(p['quantifier']['over']), p['quantifier']['text'], p['why_tests_cant'],
        json.dumps(p['anchors'], indent=1))
    taken = []
    for r in 'abcdefghijklmnop':
        m = '/verif/seeded/%s-%s/meta.json' % (pid, r)
        if os.path.exists(m):
            taken.append(json.load(open(m))['summary'])
    if taken:
        txt += "\nIDEAS ALREADY TAKEN (your change must be a DIFFERENT one: different mechanism, preferably a different function or a different clause of the statement):\n"
        for i, t in enumerate(taken):
            txt += "  (%d) %s\n" % (i + 1, t)
    open(d + '/OUT/PROPERTY.txt', 'w').write(txt)
    open(d + '/OUT/PROMPT.txt', 'w').write(tmpl.replace('@DIR@', os.path.basename(d)).replace('@ID@', pid))
    print(d)
