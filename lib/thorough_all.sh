#!/bin/bash
# runs the thorough tier of every check once (development aid; evidence must be produced in /verif itself)
cd "$(dirname "$0")/.."
for p in ${@:-C01 C02 C03 C04 C05 C06 C07 C08 C09 C10 C11 C12 C13 C14 C15 C16 C17 C18 C19 C20}; do
  /usr/bin/time -f "%e s" ./check $p --tier thorough > thorough_$p.out 2> thorough_$p.err
  echo "$p exit=$? $(head -1 thorough_$p.out | cut -c1-200)"
  grep -v "^VIOLATION\|^check " thorough_$p.out | cut -c1-300
done
