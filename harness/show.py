import json,sys
d=json.load(sys.stdin)
print('evals',d['evaluations'],'sigs',len(d['sigs']),'trivial',d['trivial'],'inconcl',d['inconclusive'],d['inconclusive_reasons'][:2],'wall',round(d['wall_s'],1))
c=d['counts']
print({k:v for k,v in c.items() if not k.startswith('class:')})
print('classes',{k[6:]:v for k,v in c.items() if k.startswith('class:')})
print('extra',json.dumps(d.get('extra'))[:400])
seen=set()
for v in d['violations']:
    if v['signature'] in seen: continue
    seen.add(v['signature'])
    print('VIOL',v['signature'],'|',v['what'],'| case_seed',v['case_seed'],v['mode'])
    if len(sys.argv)>1: print(json.dumps(v['detail'],indent=1)[:int(sys.argv[1])])
