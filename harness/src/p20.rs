//! C20 – shutdown stops accepting, not answering; idle workers are reclaimed.
//!  (a) drop(server) at a seeded moment relative to connecting clients, queued and handed-out
//!      requests, on TCP and UNIX listeners; connect must be refused within the bound and stay
//!      refused, the UNIX path must be gone, handed-out requests must still be answerable.
//!  (b) thread reclamation: library threads (everything not named vh-*) before a burst, at the
//!      peak, after the idle period, and after the server was dropped.

use crate::alloc::lib;
use crate::net::{Addr, Client, Got};
use crate::report::Violation;
use crate::util::{library_thread_count, sleep_us, spawn_named, CalWindow, Rng, J};
use crate::Ctx;
use std::sync::atomic::{AtomicBool, AtomicUsize, Ordering};
use std::sync::Arc;
use std::time::{Duration, Instant};
use tiny_http::verif as v;
use tiny_http::{Response, Server};

fn own_ip(shard: usize, trial: u64) -> String {
    // a loopback address of our own: nobody else can later bind the same (address, port)
    format!("127.{}.{}.{}", 1 + (std::process::id() % 100), shard + 1, 1 + (trial % 250))
}

fn try_connect(addr: &Addr) -> Result<(), String> {
    match addr {
        Addr::Tcp(sa) => match std::net::TcpStream::connect_timeout(sa, Duration::from_millis(500)) {
            Ok(_) => Ok(()),
            Err(e) => Err(format!("{:?}", e.kind())),
        },
        Addr::Unix(p) => match std::os::unix::net::UnixStream::connect(p) {
            Ok(_) => Ok(()),
            Err(e) => Err(format!("{:?}", e.kind())),
        },
    }
}

fn trial_a(ctx: &Ctx, cs: u64) {
    let rep = &ctx.rep;
    let mut rng = Rng::new(cs);
    let unix = rng.chance(1, 3);
    let trial = cs & 0xffff_ffff;
    let (server, addr) = if unix {
        let dir = std::env::current_exe().unwrap().parent().unwrap().join("socks");
        let _ = std::fs::create_dir_all(&dir);
        let p = dir.join(format!("c20-{}-{:x}", std::process::id(), trial));
        let _ = std::fs::remove_file(&p);
        match Server::http_unix(&p) {
            Ok(s) => (s, Addr::Unix(p)),
            Err(e) => {
                rep.inconclusive(&format!("bind unix: {}", e));
                return;
            }
        }
    } else {
        let ip = own_ip(ctx.shard, trial);
        match Server::http(format!("{}:0", ip)) {
            Ok(s) => {
                let a = s.server_addr().to_ip().unwrap();
                (s, Addr::Tcp(a))
            }
            Err(e) => {
                rep.inconclusive(&format!("bind tcp {}: {}", ip, e));
                return;
            }
        }
    };
    let cal = CalWindow::open();
    // clients: `handed` requests will be received by the application before the drop, `queued`
    // stay in the queue, `connecting` threads keep connecting across the drop
    let handed = rng.below(4);
    let queued = rng.below(3);
    // half of the trials: nobody tries to connect for 150 ms after the drop, then the first
    // attempt must already be refused (an accept thread that went back to sleep in accept()
    // after the drop's wake-up would be "healed" by the very attempts that look for refusal)
    let quiet_ms: u64 = if rng.chance(1, 2) { 150 } else { 0 };
    let connectors = if quiet_ms > 0 { 0 } else { rng.below(3) };
    let mut clients: Vec<Client> = Vec::new();
    for i in 0..handed + queued {
        match Client::connect(&addr) {
            Ok(mut c) => {
                c.send(format!("GET /s/{:x}/{} HTTP/1.1\r\nHost: h\r\n\r\n", trial, i).as_bytes());
                clients.push(c);
            }
            Err(e) => {
                rep.inconclusive(&format!("connect before drop: {}", e));
                return;
            }
        }
    }
    let mut held = Vec::new();
    for _ in 0..handed {
        match lib(|| server.recv_timeout(Duration::from_millis(1500))) {
            Ok(Some(rq)) => held.push(rq),
            _ => {
                rep.inconclusive("request not received before drop");
                return;
            }
        }
    }
    let stop = Arc::new(AtomicBool::new(false));
    let successes_after = Arc::new(AtomicUsize::new(0));
    let mut chs = Vec::new();
    for i in 0..connectors {
        let (addr, stop) = (addr.clone(), stop.clone());
        chs.push(spawn_named(&format!("conn{}", i), move || {
            let mut n = 0usize;
            while !stop.load(Ordering::SeqCst) {
                if let Ok(mut c) = Client::connect(&addr) {
                    c.send(b"GET /s/x HTTP/1.1\r\nHost: h\r\n\r\n");
                    n += 1;
                }
                sleep_us(150);
            }
            n
        }));
    }
    sleep_us(rng.range(0, 3000) as u64);
    // the drop
    let t_drop = Instant::now();
    lib(|| drop(server));
    let drop_us = t_drop.elapsed().as_micros() as u64;
    let mut finding: Option<(String, String)> = None;
    if let Addr::Unix(p) = &addr {
        if p.exists() {
            finding = Some(("C20/unix-path-not-removed".into(), format!("{} still exists after drop(server) returned", p.display())));
        }
    }
    // handed-out requests can still be answered
    let answer_delay_ms = rng.range(0, 50) as u64;
    let mut hs = Vec::new();
    // which clients' requests were handed out (any of the connections may have been first)
    let held_ids: Vec<usize> = held.iter().filter_map(|rq| rq.url().rsplit('/').next().and_then(|s| s.parse().ok())).collect();
    for (i, rq) in held.into_iter().enumerate() {
        hs.push(spawn_named(&format!("ans{}", i), move || {
            std::thread::sleep(Duration::from_millis(answer_delay_ms));
            let id = rq.url().to_string();
            lib(|| rq.respond(Response::from_string(format!("late {}", id)))).map_err(|e| e.to_string())
        }));
    }
    // refusal
    let mut first_refused: Option<u64> = None;
    let mut accepted_after_refusal = false;
    let mut last_err = String::new();
    if quiet_ms > 0 {
        rep.inc("a:quiet_period_before_the_first_attempt");
        std::thread::sleep(Duration::from_millis(quiet_ms));
        if try_connect(&addr).is_ok() && finding.is_none() {
            if cal.healthy(Duration::from_millis(150)) {
                finding = Some((
                    "C20/still-accepting".into(),
                    format!("the first connection attempt after drop(server), made {} ms later, was accepted", quiet_ms),
                ));
            } else {
                rep.inconclusive("still accepting after the quiet period, calibrator unhealthy");
                return;
            }
        }
    }
    let poll_t0 = Instant::now();
    while poll_t0.elapsed() < Duration::from_millis(1300) {
        match try_connect(&addr) {
            Ok(()) => {
                if first_refused.is_some() {
                    accepted_after_refusal = true;
                }
                successes_after.fetch_add(1, Ordering::SeqCst);
            }
            Err(e) => {
                last_err = e;
                if first_refused.is_none() {
                    first_refused = Some(t_drop.elapsed().as_micros() as u64);
                }
            }
        }
        if let Some(fr) = first_refused {
            // keep polling for 100 ms after the first refusal: it must stay refused
            if t_drop.elapsed().as_micros() as u64 > fr + 100_000 {
                break;
            }
        }
        std::thread::sleep(Duration::from_millis(5));
    }
    stop.store(true, Ordering::SeqCst);
    for h in chs {
        let _ = h.join();
    }
    let mut respond_errs = Vec::new();
    for h in hs {
        match h.join() {
            Ok(Ok(())) => {}
            Ok(Err(e)) => respond_errs.push(e),
            Err(_) => respond_errs.push("handler panicked".into()),
        }
    }
    // the clients of handed-out requests must get complete responses
    let mut got_late = 0;
    for (ci, c) in clients.iter_mut().enumerate() {
        if !held_ids.contains(&ci) {
            continue;
        }
        if let Got::Msg = c.await_finals(1, &|_| false, Duration::from_millis(1500)) {
            if c.msgs.last().map(|m| m.0.status == 200 && m.0.body.starts_with(b"late ")).unwrap_or(false) {
                got_late += 1;
            }
        }
    }
    let healthy = cal.healthy(Duration::from_millis(150));
    if finding.is_none() {
        match first_refused {
            None => {
                if healthy {
                    finding = Some((
                        "C20/still-accepting".into(),
                        format!("connection attempts still succeed {} ms after drop(server)", poll_t0.elapsed().as_millis()),
                    ));
                } else {
                    rep.inconclusive("still accepting, calibrator unhealthy");
                    return;
                }
            }
            Some(us) => {
                rep.counts.max("max_time_to_refusal_us", us);
                if accepted_after_refusal {
                    finding = Some(("C20/accepting-again-after-refusal".into(), "a connection attempt succeeded after one had been refused".into()));
                }
            }
        }
    }
    if finding.is_none() && !respond_errs.is_empty() {
        finding = Some(("C20/respond-after-drop-failed".into(), format!("respond on a handed-out request after drop(server) failed: {}", respond_errs[0])));
    }
    if finding.is_none() && got_late != handed {
        if healthy {
            finding = Some((
                "C20/handed-out-request-not-answerable".into(),
                format!("{} requests were handed out before the drop, only {} responses reached their clients", handed, got_late),
            ));
        } else {
            rep.inconclusive("late responses missing, calibrator unhealthy");
            return;
        }
    }
    rep.inc(if unix { "a:unix" } else { "a:tcp" });
    rep.counts.add("a_handed_out_answered_after_drop", got_late as u64);
    rep.counts.max("a_max_drop_call_us", drop_us);
    rep.eval(Some(&format!("a|{}|h{}|q{}|c{}|d{}", if unix { "unix" } else { "tcp" }, handed, queued, connectors, answer_delay_ms / 10)));
    let detail = J::obj()
        .set("transport", J::s(if unix { "unix" } else { "tcp" }))
        .set("address", J::s(format!("{:?}", addr)))
        .set("handed_out_before_drop", J::u(handed))
        .set("queued_not_received", J::u(queued))
        .set("connector_threads", J::u(connectors))
        .set("drop_call_us", J::I(drop_us as i64))
        .set("first_refusal_us_after_drop", first_refused.map(|x| J::I(x as i64)).unwrap_or(J::Null))
        .set("refusal_error", J::s(&last_err))
        .set("connects_succeeded_after_drop", J::u(successes_after.load(Ordering::SeqCst)))
        .set("late_responses_received", J::u(got_late))
        .set("answer_delay_ms", J::I(answer_delay_ms as i64));
    if let Some((sig, what)) = finding {
        rep.violation(Violation { signature: sig, what, detail, case_seed: cs, mode: "a".into() });
    } else if rep.want_sample() && cs % 5 == 0 {
        rep.sample(|| detail.set("workload", J::s("a")));
    }
    drop(clients);
}

fn burst(addr: &Addr, n: usize, tag: &str) -> (Vec<Client>, usize) {
    let mut hs = Vec::new();
    let bar = Arc::new(std::sync::Barrier::new(n));
    for i in 0..n {
        let (addr, bar, tag) = (addr.clone(), bar.clone(), tag.to_string());
        hs.push(spawn_named(&format!("bu{}", i), move || {
            bar.wait();
            // staggered a little: simultaneous arrival is C08's subject, not this one's
            sleep_us((i as u64) * 300);
            let mut c = Client::connect(&addr).ok()?;
            c.send(format!("GET /t/{}/{} HTTP/1.1\r\nHost: h\r\n\r\n", tag, i).as_bytes());
            let ok = matches!(c.await_finals(1, &|_| false, Duration::from_millis(3000)), Got::Msg);
            Some((c, ok))
        }));
    }
    let mut cs = Vec::new();
    let mut answered = 0;
    for h in hs {
        if let Ok(Some((c, ok))) = h.join() {
            if ok {
                answered += 1;
            }
            cs.push(c);
        }
    }
    (cs, answered)
}

fn trial_b(ctx: &Ctx, cs: u64) {
    let rep = &ctx.rep;
    let mut rng = Rng::new(cs);
    // half of the trials: the idle period is not silent, a connection arrives every 1.6-2 s.
    // Only the worker that serves it starts a new idle period; all the others must still retire.
    let trickle = if ctx.replay.is_some() { rng.chance(1, 2) } else { let _ = rng.chance(1, 2); matches!(ctx.shard % 8, 2 | 4) };
    let n = if trickle { *rng.pick(&[16usize, 24]) } else { *rng.pick(&[5usize, 8, 16, 64]) };
    let trickle_period_ms = 1600 + rng.range(0, 400) as u64;
    let t0 = library_thread_count();
    // the transport is fixed per shard so that every run has both (replays: by seed)
    let unix = if ctx.replay.is_some() { rng.chance(1, 2) } else { let _ = rng.chance(1, 3); ctx.shard % 4 == 0 };
    let (server, addr) = if unix {
        let dir = std::env::current_exe().unwrap().parent().unwrap().join("socks");
        let _ = std::fs::create_dir_all(&dir);
        let p = dir.join(format!("c20b-{}-{:x}", std::process::id(), cs & 0xffff_ffff));
        let _ = std::fs::remove_file(&p);
        match Server::http_unix(&p) {
            Ok(s) => (Arc::new(s), Addr::Unix(p)),
            Err(e) => {
                rep.inconclusive(&format!("bind unix: {}", e));
                return;
            }
        }
    } else {
        let ip = own_ip(ctx.shard, cs);
        match Server::http(format!("{}:0", ip)) {
            Ok(s) => {
                let a = Addr::Tcp(s.server_addr().to_ip().unwrap());
                (Arc::new(s), a)
            }
            Err(e) => {
                rep.inconclusive(&format!("bind: {}", e));
                return;
            }
        }
    };
    let stop = Arc::new(AtomicBool::new(false));
    let (s2, stop2) = (server.clone(), stop.clone());
    let app = spawn_named("app", move || {
        while !stop2.load(Ordering::SeqCst) {
            if let Ok(Some(rq)) = lib(|| s2.recv_timeout(Duration::from_millis(20))) {
                let _ = lib(|| rq.respond(Response::from_string("ok")));
            }
        }
    });
    std::thread::sleep(Duration::from_millis(60));
    let t1 = library_thread_count();
    let (conns, answered1) = burst(&addr, n, "one");
    let t_peak = library_thread_count();
    drop(conns);
    // idle period of the pool (5 s) plus margin
    let mut trickled = 0usize;
    let mut trickle_answered = 0usize;
    if trickle {
        let t_start = std::time::Instant::now();
        while t_start.elapsed() < Duration::from_millis(8200) {
            std::thread::sleep(Duration::from_millis(trickle_period_ms));
            if let Ok(mut c) = Client::connect(&addr) {
                c.send(format!("GET /t/trickle/{} HTTP/1.1\r\nHost: h\r\nConnection: close\r\n\r\n", trickled).as_bytes());
                trickled += 1;
                if matches!(c.await_finals(1, &|_| false, Duration::from_millis(1500)), Got::Msg) {
                    trickle_answered += 1;
                }
            }
        }
        // let the worker of the last one become idle again
        std::thread::sleep(Duration::from_millis(300));
    } else {
        std::thread::sleep(Duration::from_millis(5000 + 2000));
    }
    let t2 = library_thread_count();
    // workers woken during the last idle period have started a new one: at most one per trickle
    // connection of the last 5 s (the condition variable may hand each to a different worker)
    let allowed_surplus = if trickle { (5000 / trickle_period_ms) as usize + 2 } else { 0 };
    // dispatch after retirement: a second burst is still served
    let n2 = *rng.pick(&[3usize, 6, 9]);
    let (conns2, answered2) = burst(&addr, n2, "two");
    let t_peak2 = library_thread_count();
    // half of the trials drop the server while every worker is busy with an open connection
    // (so that the wake-up connection of the drop needs a brand-new thread)
    let drop_while_busy = rng.chance(1, 2);
    let mut busy_conns = Vec::new();
    if drop_while_busy {
        busy_conns = conns2;
        while busy_conns.len() < 5 {
            match Client::connect(&addr) {
                Ok(c) => busy_conns.push(c),
                Err(_) => break,
            }
        }
        std::thread::sleep(Duration::from_millis(30));
    } else {
        drop(conns2);
    }
    stop.store(true, Ordering::SeqCst);
    let _ = app.join();
    match Arc::try_unwrap(server) {
        Ok(s) => lib(|| drop(s)),
        Err(_) => {
            rep.inconclusive("server still shared");
            return;
        }
    }
    std::thread::sleep(Duration::from_millis(if drop_while_busy { 200 } else { 0 }));
    drop(busy_conns);
    std::thread::sleep(Duration::from_millis(7000));
    let t3 = library_thread_count();
    rep.inc("b:trials");
    let nontrivial = t_peak > t1;
    let bsig = format!("b|N{}|N2_{}|peak{}|busydrop{}|unix{}|trickle{}", n, n2, t_peak, drop_while_busy, unix, trickle);
    if trickle {
        rep.inc("b:idle_period_with_trickle");
        rep.counts.add("b:trickle_connections", trickled as u64);
    }
    if unix {
        rep.inc("b:unix");
    }
    if drop_while_busy {
        rep.inc("b:server_dropped_while_all_workers_busy");
    }
    rep.eval(if nontrivial { Some(&bsig) } else { None });
    let detail = J::obj()
        .set("burst", J::u(n))
        .set("second_burst", J::u(n2))
        .set("transport", J::s(if unix { "unix" } else { "tcp" }))
        .set("server_dropped_while_all_workers_busy", J::B(drop_while_busy))
        .set("library_threads_before_server", J::u(t0))
        .set("library_threads_idle_server_T1", J::u(t1))
        .set("library_threads_peak", J::u(t_peak))
        .set("library_threads_after_idle_period_T2", J::u(t2))
        .set("idle_period_with_trickle_ms", if trickle { J::I(trickle_period_ms as i64) } else { J::Null })
        .set("library_threads_second_peak", J::u(t_peak2))
        .set("library_threads_7s_after_drop", J::u(t3))
        .set("answered_first_burst", J::u(answered1))
        .set("answered_second_burst", J::u(answered2));
    let mut finding: Option<(String, String)> = None;
    if answered1 != n {
        // a stalled burst is C08's finding; here it only makes the trial unusable
        rep.inconclusive("first burst not fully answered (see C08)");
        return;
    }
    if trickle && trickle_answered != trickled {
        rep.inconclusive("a trickle connection was not answered (see C08)");
        return;
    }
    if t2 > t1 + allowed_surplus {
        finding = Some((
            "C20/idle-workers-not-reclaimed".into(),
            if trickle {
                format!(
                    "{} library threads before the burst of {}, {} at the peak, still {} after 8.5 s in which only one connection every {} ms arrived (at most {} workers can have been woken within the last idle period)",
                    t1, n, t_peak, t2, trickle_period_ms, allowed_surplus
                )
            } else {
                format!("{} library threads before the burst, {} at the peak, still {} seven seconds after all connections were closed", t1, t_peak, t2)
            },
        ));
    } else if answered2 != n2 {
        finding = Some(("C20/no-dispatch-after-retirement".into(), format!("second burst: {} of {} answered", answered2, n2)));
    } else if t3 > t0 {
        finding = Some((
            "C20/threads-left-after-drop".into(),
            format!("{} library threads before the server existed, {} seven seconds after it was dropped", t0, t3),
        ));
    }
    if let Some((sig, what)) = finding {
        rep.violation(Violation { signature: sig, what, detail, case_seed: cs, mode: "b".into() });
    } else {
        rep.sample(|| detail.set("workload", J::s("b")));
    }
}

fn open_fds() -> usize {
    std::fs::read_dir("/proc/self/fd").map(|d| d.count()).unwrap_or(0)
}

/// (c) injected fault: the process runs out of file descriptors, `accept` fails and the accept
/// thread ends (the application is told through `recv`); the descriptors come back and the server
/// is dropped. Dropping must still clean up: the UNIX socket path is removed, no thread stays.
fn trial_c(ctx: &Ctx, cs: u64) {
    let rep = &ctx.rep;
    let mut rng = Rng::new(cs);
    let unix = rng.chance(2, 3);
    let spare = *rng.pick(&[2usize, 2, 3, 4]);
    let t0 = library_thread_count();
    let panics0 = crate::env::panics_count();
    // a small descriptor budget so that exhaustion takes a handful of opens
    let mut old = libc::rlimit { rlim_cur: 0, rlim_max: 0 };
    unsafe {
        libc::getrlimit(libc::RLIMIT_NOFILE, &mut old);
    }
    let (server, addr, path) = if unix {
        let dir = std::env::current_exe().unwrap().parent().unwrap().join("socks");
        let _ = std::fs::create_dir_all(&dir);
        let p = dir.join(format!("c20c-{}-{:x}", std::process::id(), cs & 0xffff_ffff));
        let _ = std::fs::remove_file(&p);
        match Server::http_unix(&p) {
            Ok(s) => (s, Addr::Unix(p.clone()), Some(p)),
            Err(e) => {
                rep.inconclusive(&format!("bind unix: {}", e));
                return;
            }
        }
    } else {
        match Server::http(format!("{}:0", own_ip(ctx.shard, cs))) {
            Ok(s) => {
                let a = Addr::Tcp(s.server_addr().to_ip().unwrap());
                (s, a, None)
            }
            Err(e) => {
                rep.inconclusive(&format!("bind: {}", e));
                return;
            }
        }
    };
    std::thread::sleep(Duration::from_millis(50));
    let budget = libc::rlimit { rlim_cur: (open_fds() + 40) as libc::rlim_t, rlim_max: old.rlim_max };
    unsafe {
        libc::setrlimit(libc::RLIMIT_NOFILE, &budget);
    }
    let mut hogs = Vec::new();
    while let Ok(f) = std::fs::File::open("/dev/null") {
        hogs.push(f);
        if hogs.len() > 10_000 {
            break;
        }
    }
    for _ in 0..spare {
        hogs.pop();
    }
    // one client gets in with the spare descriptors, the accept after it fails with EMFILE
    let mut clients = Vec::new();
    let mut told = None;
    let t_wait = Instant::now();
    while t_wait.elapsed() < Duration::from_millis(2000) && told.is_none() {
        // further clients use up what is left (each costs one descriptor here and one or two
        // on the accepting side)
        if clients.len() < 4 {
            if let Ok(c) = crate::net::CStream::connect(&addr) {
                clients.push(c);
            }
        }
        for _ in 0..4 {
            match lib(|| server.recv_timeout(Duration::from_millis(50))) {
                Err(e) => {
                    told = Some(e.to_string());
                    break;
                }
                Ok(Some(rq)) => {
                    let _ = lib(|| rq.respond(Response::from_string("ok")));
                }
                Ok(None) => {}
            }
        }
    }
    drop(clients);
    hogs.clear();
    unsafe {
        libc::setrlimit(libc::RLIMIT_NOFILE, &old);
    }
    if told.is_none() {
        // no error was reported; the accept thread may have ended all the same (it unwraps the
        // duplication of the accepted socket, which fails when exactly that descriptor is the one
        // too many): then the listener is closed and a connection attempt is refused
        std::thread::sleep(Duration::from_millis(100));
        match crate::net::CStream::connect(&addr) {
            Err(e) if e.kind() == std::io::ErrorKind::ConnectionRefused => {
                told = Some("(no error reported to the application; the listener is closed)".into());
                rep.inc("c:accept_thread_ended_without_report");
            }
            _ => {
                // the fault did not hit the accept path: nothing learnt
                rep.inc("c:accept_failure_not_provoked");
                lib(|| drop(server));
                rep.eval(None);
                return;
            }
        }
    }
    std::thread::sleep(Duration::from_millis(100));
    lib(|| drop(server));
    std::thread::sleep(Duration::from_millis(6500));
    let t1 = library_thread_count();
    rep.inc("c:trials_with_accept_failure");
    rep.eval(Some(&format!("c|unix{}|spare{}", unix, spare)));
    let detail = J::obj()
        .set("transport", J::s(if unix { "unix" } else { "tcp" }))
        .set("spare_descriptors", J::u(spare))
        .set("error_reported_to_the_application", J::s(told.clone().unwrap_or_default()))
        .set("library_threads_before", J::u(t0))
        .set("library_threads_6s_after_drop", J::u(t1));
    let mut finding: Option<(String, String)> = None;
    if let Some(p) = &path {
        if p.exists() {
            finding = Some((
                "C20/unix-path-not-removed".into(),
                format!("the socket file {} is still there after the server was dropped (its accept thread had ended after an accept error: {})", p.display(), told.clone().unwrap_or_default()),
            ));
            let _ = std::fs::remove_file(p);
        }
    }
    if finding.is_none() && t1 > t0 {
        finding = Some((
            "C20/threads-left-after-drop".into(),
            format!("{} library threads before the server existed, {} six seconds after it was dropped (accept had failed with: {})", t0, t1, told.clone().unwrap_or_default()),
        ));
    }
    if finding.is_none() && crate::env::panics_count() > panics0 {
        // a panic of a library thread in this situation is reported as evidence only: running
        // out of descriptors is not an input the statement of C20 talks about
        rep.inc("c:library_panics_during_descriptor_exhaustion");
        let _ = crate::env::panics_take();
    }
    if let Some((sig, what)) = finding {
        rep.violation(Violation { signature: sig, what, detail, case_seed: cs, mode: "c".into() });
    } else {
        rep.sample(|| detail.set("workload", J::s("c")));
    }
}

pub fn run(ctx: &Ctx) {
    crate::env::install_fp_hook();
    if let Some((cs, mode, repeat)) = &ctx.replay {
        for _ in 0..(*repeat).max(1) {
            if mode == "b" {
                trial_b(ctx, *cs);
            } else if mode == "c" {
                trial_c(ctx, *cs);
            } else {
                crate::env::fp_configure(*cs, &[v::FP_ACCEPTED], 300, 2000);
                trial_a(ctx, *cs);
            }
        }
        return;
    }
    let mut rng = Rng::new(ctx.seed ^ ((ctx.shard as u64) << 32) ^ 0xC20);
    if ctx.shard % 8 == 6 {
        // (c): descriptor exhaustion, alone in its process
        let mut idx = 0u64;
        loop {
            trial_c(ctx, ctx.case_seed(idx));
            idx += 1;
            if ctx.elapsed_ms() + 8_000 > ctx.budget_ms || ctx.rep.n_violations() > 0 {
                break;
            }
        }
    } else if ctx.shard % 2 == 0 {
        // (b): process-wide thread counts, one trial at a time, nothing else in this process
        let mut idx = 0u64;
        loop {
            trial_b(ctx, ctx.case_seed(idx));
            idx += 1;
            // a trial needs ~15 s; start another one only if the budget allows
            if ctx.elapsed_ms() + 16_000 > ctx.budget_ms || ctx.rep.n_violations() > 0 {
                break;
            }
        }
    } else {
        // half of these shards: everything on one CPU and no injected delay, so that a thread the
        // drop wakes up (the accept thread) runs at once, ahead of the rest of the drop
        let single_cpu = ctx.shard % 4 == 1;
        let pert = if single_cpu {
            crate::util::set_affinity(1, (ctx.shard * 3) % crate::util::online_cpus());
            let nspin = [0usize, 0, 0, 1][(ctx.shard / 4) % 4];
            let spin = if nspin > 0 { Some(crate::util::Spinners::start(nspin)) } else { None };
            crate::env::Perturb { cpus: 1, spinners: nspin, _spin: spin, desc: format!("cpus=1 spinners={} (fixed)", nspin) }
        } else {
            crate::env::perturb_setup(&mut rng, ctx.shard, true)
        };
        // (on the single-CPU shards the injected delay sits in the dropping thread, right after
        // its wake-up connection, instead of in the accept thread)
        let permille = if single_cpu { 500 } else { *rng.pick(&[0u32, 200, 500]) };
        crate::env::fp_configure(ctx.seed ^ ctx.shard as u64, &[if single_cpu { v::FP_DROP_WOKE_ACCEPT } else { v::FP_ACCEPTED }], permille, 2000);
        let mut idx = 0u64;
        while ctx.time_left() && ctx.rep.n_violations() < 6 {
            trial_a(ctx, ctx.case_seed(idx));
            idx += 1;
        }
        ctx.rep.set_extra("perturbation", J::s(format!("{} fp_delay_permille={}", pert.desc, permille)));
    }
}
