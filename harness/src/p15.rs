//! C15 – a client vanishing at any point is contained (fault enumeration).
//! Request side: for each conversation of a corpus and EVERY prefix length k in 0..=len the
//! client sends k bytes and then half-closes, closes or resets. Response side: responses of
//! every framing kind and sizes up to 4 MiB to a client that is gone before the response, reads
//! j bytes and resets, or does not read and then closes.

use crate::conv::*;
use crate::env::Env;
use crate::gen::{self, AbsReq};
use crate::net::End;
use crate::pconv::{read_sizes, simple_req, Pipe};
use crate::report::Violation;
use crate::util::{Rng, J};
use crate::Ctx;
use std::time::Duration;

#[derive(Clone, Copy, Debug, PartialEq)]
enum Fault {
    HalfClose,
    Close,
    Reset,
}

/// Conversations of the corpus: valid pipelines covering all framing kinds.
fn corpus_case(seed: u64, i: u64) -> (ConvCase, Vec<usize>, String) {
    let cs = crate::util::mix(seed, 0xC15, i);
    let mut rng = Rng::new(cs);
    let mut p = Pipe::new();
    let n = rng.range(1, 3);
    let mut kinds = Vec::new();
    // offset (within the wire) from which on request j is deliverable
    let mut deliverable_at = Vec::new();
    let mut off = 0usize;
    for j in 0..n {
        let kind = (i as usize + j * 3 + rng.below(2)) % 7;
        let mut a: AbsReq = simple_req(cs, j, (1, 1));
        let (wire_body, designated, label): (Vec<u8>, Vec<u8>, &str) = match kind {
            0 => (Vec::new(), Vec::new(), "no-body"),
            1 => {
                let len = *rng.pick(&[1usize, 20, 100]);
                a.method = "POST".into();
                a.add("Content-Length", &format!(" {}", len));
                let d = gen::body_bytes(cs ^ j as u64, len, true);
                (d.clone(), d, "cl-small")
            }
            2 => {
                a.method = "POST".into();
                a.add("Content-Length", " 1024");
                let d = gen::body_bytes(cs ^ j as u64, 1024, false);
                (d.clone(), d, "cl-1024")
            }
            3 => {
                let len = *rng.pick(&[1025usize, 1500, 3000]);
                a.method = "POST".into();
                a.add("Content-Length", &format!(" {}", len));
                let d = gen::body_bytes(cs ^ j as u64, len, true);
                (d.clone(), d, "cl-streamed")
            }
            4 => {
                let len = *rng.pick(&[5usize, 200, 1500]);
                a.method = "PUT".into();
                a.add("Transfer-Encoding", " chunked");
                let d = gen::body_bytes(cs ^ j as u64, len, true);
                let ch = gen::gen_chunking(&mut rng, len, 300);
                (gen::encode_chunked(&d, &ch), d, "chunked")
            }
            5 => {
                // a longer head (several reads of the 1 KiB buffer)
                for h in 0..rng.range(5, 30) {
                    a.add(&format!("X-H{}", h), &format!(" {}", gen::vchars(&mut rng, 40)));
                }
                (Vec::new(), Vec::new(), "long-head")
            }
            _ => {
                a.version = (1, 0);
                a.add("Connection", " keep-alive");
                (Vec::new(), Vec::new(), "http10-keepalive")
            }
        };
        kinds.push(label);
        let head_len = a.head_bytes().len();
        let buffered = matches!(label, "cl-small" | "cl-1024");
        deliverable_at.push(off + head_len + if buffered { wire_body.len() } else { 0 });
        off += head_len + wire_body.len();
        let plan = ReqPlan {
            // mostly read to the end; sometimes answer early (nothing / half of the body read)
            read: match rng.below(5) {
                0 => ReadPlan::None,
                1 => ReadPlan::Upto(designated.len() / 2),
                _ => ReadPlan::ToEof { extra: 0 },
            },
            read_sizes: read_sizes(&mut rng, designated.len()),
            as_reader_calls: 1,
            finish: Finish::Respond { status: 200, body_len: *rng.pick(&[0usize, 10, 2000]), declared: true, threshold: None, max_piece: 100000 },
            pre_delay_us: 0,
            zero_read_after: None,
            read_api: ReadApi::Read,
        };
        p.push_valid(&a, &wire_body, designated, LenExp::Any, plan, label);
    }
    let case = p.finish(&mut rng, &kinds.join("+"), false, &[], true, 1500);
    (case, deliverable_at, kinds.join("+"))
}

fn cut_class(case: &ConvCase, k: usize) -> &'static str {
    let mut off = 0;
    for r in &case.reqs {
        if k < off + r.head_len {
            return if k == off { "at-message-boundary" } else { "inside-head" };
        }
        if k < off + r.bytes.len() {
            return match r.label.as_str() {
                "cl-small" | "cl-1024" => "inside-buffered-body",
                "chunked" => "inside-chunked-body",
                _ => "inside-streamed-body",
            };
        }
        off += r.bytes.len();
    }
    "after-everything"
}

fn run_cut(ctx: &Ctx, env: &Env, base: &ConvCase, deliverable_at: &[usize], k: usize, fault: Fault, conv_id: u64) {
    let rep = &ctx.rep;
    let mut case = base.clone();
    let mut script = Vec::new();
    if k > 0 {
        script.push(Step::SendPaced { from: 0, ends: vec![k], pause_us: 300 });
    }
    match fault {
        Fault::HalfClose => {
            script.push(Step::HalfClose);
            script.push(Step::AwaitEnd);
        }
        Fault::Close => script.push(Step::Close),
        Fault::Reset => script.push(Step::Reset),
    }
    case.script = script;
    let panics_before = crate::env::panics_count();
    let obs = run_conv(env, &case);
    let class = cut_class(base, k);
    rep.inc(&format!("cut:{}:{:?}", class, fault));
    let sig = format!("{:x}|{}|{:?}", conv_id, k, fault);
    if obs.connect_err.is_some() || (obs.timed_out.is_some() && !obs.healthy) {
        rep.inconclusive("cut run inconclusive");
        return;
    }
    rep.eval(Some(&sig));
    let deliverable = deliverable_at.iter().filter(|d| **d <= k).count();
    let mut finding: Option<(String, String)> = None;
    // 1. nothing incomplete is delivered; deliveries are the first complete requests, in order
    if obs.delivered.len() > deliverable {
        let d = &obs.delivered[deliverable];
        finding = Some((
            "incomplete-request-delivered".into(),
            format!(
                "prefix of {} bytes contains {} complete request(s) but {} were delivered (extra: {} {})",
                k,
                deliverable,
                obs.delivered.len(),
                d.method,
                crate::util::esc(d.url.as_bytes(), 60)
            ),
        ));
    }
    for (i, d) in obs.delivered.iter().enumerate().take(deliverable) {
        let a = case.reqs[i].abs.as_ref().unwrap();
        if finding.is_none() && (d.url != a.target || d.method != a.method) {
            finding = Some(("wrong-request-delivered".into(), format!("delivery #{} is {} {}", i, d.method, crate::util::esc(d.url.as_bytes(), 60))));
        }
    }
    // 2. after an orderly half-close the complete requests are delivered and answered
    if finding.is_none() && fault == Fault::HalfClose {
        if obs.delivered.len() < deliverable {
            finding = Some((
                "complete-request-not-delivered".into(),
                format!("{} complete request(s) in the prefix, only {} delivered after half-close", deliverable, obs.delivered.len()),
            ));
        } else if obs.parse_error.is_some() {
            finding = Some(("response-stream-malformed".into(), obs.parse_error.clone().unwrap()));
        } else {
            let finals = obs.msgs.iter().filter(|m| !m.0.is_interim()).count();
            if finals != deliverable {
                finding = Some((
                    "complete-request-not-answered".into(),
                    format!("{} complete request(s), {} response(s) reached the client", deliverable, finals),
                ));
            } else if obs.end == End::Open {
                finding = Some(("no-eof-after-half-close".into(), "server did not close after the client half-closed".into()));
            }
        }
    }
    // 3. answering a vanished client returns success; body reads end; no panic
    if finding.is_none() {
        for d in &obs.delivered {
            if let Some(e) = &d.finish_err {
                finding = Some(("respond-returned-error".into(), format!("delivery #{}: respond returned {}", d.k, e)));
                break;
            }
        }
    }
    if finding.is_none() {
        if let Some(d) = obs.delivered.iter().find(|d| d.read_err.as_deref().map_or(false, |e| e.starts_with("INTERRUPTED-FOREVER"))) {
            finding = Some(("body-read-never-ends".into(), format!("delivery #{}: {}", d.k, d.read_err.clone().unwrap_or_default())));
        }
    }
    if finding.is_none() && !obs.handlers_done {
        finding = Some(("handler-blocked".into(), "a body read or respond call did not return within the bound after the client was gone".into()));
    }
    let new_panics = crate::env::panics_count().saturating_sub(panics_before);
    if finding.is_none() && new_panics > 0 {
        let p = crate::env::panics_take();
        finding = Some((
            "panic".into(),
            format!("panic: {}", p.last().map(|x| format!("{} at {} in thread {}", x.message, x.location, x.thread)).unwrap_or_default()),
        ));
    }
    // 4. the server keeps serving
    if finding.is_none() && env.control(Duration::from_millis(1000)).is_none() {
        if env.control(Duration::from_millis(1500)).is_none() {
            finding = Some(("server-stopped-serving".into(), "a fresh connection was not served after the fault".into()));
        }
    }
    for d in &obs.delivered {
        if d.finish == "respond" && d.finish_err.is_none() && fault != Fault::HalfClose {
            rep.inc("responses_written_to_a_vanished_peer_ok");
        }
        if d.read_err.is_some() {
            rep.inc("body_reads_ended_with_error");
        } else if d.eof_seen {
            rep.inc("body_reads_ended_with_eof");
        }
    }
    if let Some((asp, what)) = finding {
        rep.violation(Violation {
            signature: format!("C15/{}/{:?}/{}", class, fault, asp),
            what,
            detail: history_json(&case, &obs).set("prefix_len", J::u(k)).set("fault", J::s(format!("{:?}", fault))).set("complete_requests_in_prefix", J::u(deliverable)),
            case_seed: conv_id,
            mode: format!("cut:{}:{:?}", k, fault),
        });
    } else if rep.want_sample() && (k * 7 + conv_id as usize) % 97 == 0 {
        rep.sample(|| {
            J::obj()
                .set("conversation", J::s(&base.label))
                .set("wire_len", J::u(base.wire.len()))
                .set("prefix_len", J::u(k))
                .set("cut_class", J::s(class))
                .set("fault", J::s(format!("{:?}", fault)))
                .set("delivered", J::u(obs.delivered.len()))
                .set("responses_seen_by_client", J::u(obs.msgs.len()))
        });
    }
}

// ---------------------------------------------------------------------------------------------
// response side

fn run_response_case(ctx: &Ctx, env: &Env, cs: u64) {
    let rep = &ctx.rep;
    let mut rng = Rng::new(cs);
    let body_len = *rng.pick(&[0usize, 100, 5000, 70000, 1 << 20, 4 << 20]);
    let declared = rng.chance(1, 2);
    let behaviour = rng.below(3);
    let j = if body_len == 0 { 0 } else { rng.below(body_len.min(200000)) };
    let mut p = Pipe::new();
    let a = simple_req(cs, 0, if rng.chance(1, 4) { (1, 0) } else { (1, 1) });
    let plan = ReqPlan {
        read: ReadPlan::None,
        read_sizes: vec![4096],
        as_reader_calls: 1,
        finish: if rng.chance(1, 5) {
            Finish::Writer { status: 200, body_len, parts: vec![(100, true), (50000, false)], early_drop_sleep_us: 0, vectored: false }
        } else {
            Finish::Respond { status: 200, body_len, declared, threshold: None, max_piece: 1 << 20 }
        },
        pre_delay_us: if behaviour == 0 { 3000 } else { 0 },
        zero_read_after: None,
            read_api: ReadApi::Read,
    };
    let flabel = plan.finish_label();
    p.push_valid(&a, &[], Vec::new(), LenExp::Any, plan, "resp");
    let mut case = p.finish(&mut rng, "response-side", false, &[], false, 3000);
    let wl = case.wire.len();
    let blabel;
    case.script = match behaviour {
        0 => {
            blabel = "gone-before-response";
            vec![Step::Send(0, wl), if rng.chance(1, 2) { Step::Close } else { Step::Reset }]
        }
        1 => {
            blabel = "reads-some-then-resets";
            // wait for the first bytes, then reset in the middle of the response
            vec![Step::Send(0, wl), Step::SleepUs(200 + (j as u64 % 3000)), Step::Reset]
        }
        _ => {
            blabel = "not-reading-then-close";
            vec![Step::Send(0, wl), Step::SleepUs(200_000), Step::Close]
        }
    };
    let panics_before = crate::env::panics_count();
    let obs = run_conv(env, &case);
    rep.inc(&format!("response-side:{}", blabel));
    if obs.connect_err.is_some() || (obs.timed_out.is_some() && !obs.healthy) {
        rep.inconclusive("response-side run inconclusive");
        return;
    }
    let framing = if flabel == "writer" { "raw" } else if declared && body_len < 32768 { "identity" } else { "chunked-or-1.0-identity" };
    rep.eval(Some(&format!("resp|{}|{}|{}|{}", blabel, body_len, framing, flabel)));
    let mut finding: Option<(String, String)> = None;
    for d in &obs.delivered {
        if flabel == "respond" {
            if let Some(e) = &d.finish_err {
                finding = Some(("respond-returned-error".into(), format!("respond to a vanished client returned {}", e)));
            } else if d.done {
                rep.inc("responses_written_to_a_vanished_peer_ok");
            }
        }
    }
    if finding.is_none() && !obs.handlers_done {
        finding = Some(("handler-blocked".into(), "respond did not return within the bound after the client was gone".into()));
    }
    if finding.is_none() && crate::env::panics_count() > panics_before {
        let pz = crate::env::panics_take();
        finding = Some(("panic".into(), format!("panic: {}", pz.last().map(|x| format!("{} at {}", x.message, x.location)).unwrap_or_default())));
    }
    if finding.is_none() && env.control(Duration::from_millis(1000)).is_none() && env.control(Duration::from_millis(1500)).is_none() {
        finding = Some(("server-stopped-serving".into(), "a fresh connection was not served afterwards".into()));
    }
    if let Some((asp, what)) = finding {
        rep.violation(Violation {
            signature: format!("C15/response-side/{}/{}", blabel, asp),
            what,
            detail: history_json(&case, &obs),
            case_seed: cs,
            mode: "response-side".into(),
        });
    }
}

pub fn run(ctx: &Ctx) {
    crate::env::install_fp_hook();
    crate::env::track_reads(true);
    let mut env = Env::new(false, 1);
    if let Some((cs, mode, repeat)) = &ctx.replay {
        for _ in 0..(*repeat).max(1) {
            if mode == "response-side" {
                run_response_case(ctx, &env, *cs);
            } else {
                // mode = cut:<k>:<fault>, case_seed = (corpus seed, index) packed by `conv_id`
                let mut it = mode.split(':');
                it.next();
                let k: usize = it.next().and_then(|s| s.parse().ok()).unwrap_or(0);
                let fault = match it.next().unwrap_or("") {
                    "Close" => Fault::Close,
                    "Reset" => Fault::Reset,
                    _ => Fault::HalfClose,
                };
                let (case, da, _) = corpus_case(*cs >> 16, *cs & 0xffff);
                run_cut(ctx, &env, &case, &da, k, fault, *cs);
            }
        }
        return;
    }
    // the corpus is fixed per VERIF_SEED; conversations are distributed over the shards and every
    // cut point x fault kind of a conversation is enumerated
    let corpus_size: u64 = if ctx.thorough { 48 } else { 16 };
    let mut completed = 0u64;
    let mut i = ctx.shard as u64;
    let mut all_done = true;
    let mut stray_reported = false;
    while i < corpus_size {
        let (case, da, label) = corpus_case(ctx.seed, i);
        let conv_id = (ctx.seed << 16) | i;
        let n = case.wire.len();
        let mut finished = true;
        'cuts: for k in 0..=n {
            for fault in [Fault::HalfClose, Fault::Close, Fault::Reset] {
                if ctx.elapsed_ms() > ctx.budget_ms * 4 + 60_000 {
                    finished = false;
                    break 'cuts;
                }
                if env.cases_run >= 4000 {
                    env = Env::new(false, 1);
                }
                run_cut(ctx, &env, &case, &da, k, fault, conv_id);
                env.cases_run += 1;
            }
            if ctx.rep.n_violations() >= 10 {
                finished = false;
                break;
            }
        }
        // a request of an abandoned connection whose answering never returned (it is answered by
        // the harness's default handler on its own thread once its conversation is over)
        let stuck = crate::env::strays_stuck(std::time::Duration::from_millis(2500));
        if !stuck.is_empty() && !stray_reported {
            stray_reported = true;
            ctx.rep.violation(Violation {
                signature: "C15/abandoned-connection/handler-blocked-stall".into(),
                what: format!(
                    "answering a request of a connection the client had already left did not return within 2.5 s ({} such calls are still running)",
                    stuck.len()
                ),
                detail: J::obj().set("targets", J::A(stuck.iter().take(8).map(J::s).collect())).set("conversation", J::s(&label)),
                case_seed: conv_id,
                mode: "cut:0:HalfClose".into(),
            });
        }
        if finished {
            completed += 1;
            ctx.rep.inc(&format!("conversation_enumerated_completely:{}", label));
        } else {
            all_done = false;
        }
        i += ctx.nshards as u64;
    }
    ctx.rep.set_extra("conversations_enumerated_completely", J::I(completed as i64));
    ctx.rep.set_extra("enumeration_complete_this_shard", J::B(all_done));
    // response-side matrix for the rest of the budget
    let mut idx = 0u64;
    while ctx.time_left() && ctx.rep.n_violations() < 10 {
        if env.cases_run >= 2000 {
            env = Env::new(false, 1);
        }
        run_response_case(ctx, &env, ctx.case_seed(idx));
        env.cases_run += 1;
        idx += 1;
    }
}
