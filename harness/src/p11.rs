//! C11 – pipelined requests are read ahead without waiting for earlier answers.
//! Program A: all bodies absent or <= 1024 bytes; the application collects all n requests while
//!            answering none. On expiry the kick is "answer the oldest held request".
//! Program B: some bodies are large or chunked; the successor must appear once the body was
//!            read to its end (before any answer), or the request was answered or dropped.

use crate::alloc::lib;
use crate::env::{CaseApp, Env};
use crate::gen;
use crate::net::{Client, Got};
use crate::report::Violation;
use crate::util::{now_ns, sleep_us, spawn_named, CalWindow, Rng, J};
use crate::Ctx;
use std::io::Read;
use std::sync::{Arc, Condvar, Mutex};
use std::time::{Duration, Instant};
use tiny_http::verif as v;
use tiny_http::{Request, Response};

struct Held {
    rq: Option<Request>,
    url: String,
    t_ns: u64,
}

struct HoldApp {
    port: u16,
    held: Mutex<Vec<Held>>,
    cv: Condvar,
    /// worker-pool shape: the thread that received a request stays with it (does not go back
    /// to `recv`) until the request has been taken away to be answered
    blocking: bool,
    released: std::sync::atomic::AtomicBool,
}

impl CaseApp for HoldApp {
    fn accepts(&self, port: u16, _rq: &Request) -> bool {
        port == self.port
    }
    fn on_request(&self, rq: Request) {
        let mut h = self.held.lock().unwrap();
        let url = rq.url().to_string();
        let idx = h.len();
        h.push(Held { rq: Some(rq), url, t_ns: now_ns() });
        self.cv.notify_all();
        if self.blocking {
            let deadline = Instant::now() + Duration::from_secs(10);
            while h[idx].rq.is_some() && !self.released.load(std::sync::atomic::Ordering::SeqCst) && Instant::now() < deadline {
                let (g, _) = self.cv.wait_timeout(h, Duration::from_millis(50)).unwrap();
                h = g;
            }
        }
    }
}

impl HoldApp {
    fn wait_count(&self, n: usize, timeout: Duration) -> usize {
        let deadline = Instant::now() + timeout;
        let mut h = self.held.lock().unwrap();
        loop {
            if h.len() >= n {
                return h.len();
            }
            let now = Instant::now();
            if now >= deadline {
                return h.len();
            }
            let (g, _) = self.cv.wait_timeout(h, deadline - now).unwrap();
            h = g;
        }
    }
    fn take(&self, k: usize) -> Option<Request> {
        let r = self.held.lock().unwrap().get_mut(k).and_then(|h| h.rq.take());
        self.cv.notify_all();
        r
    }
    fn release(&self) {
        self.released.store(true, std::sync::atomic::Ordering::SeqCst);
        self.cv.notify_all();
    }
}

#[derive(Clone, Debug, PartialEq)]
enum BodyKind {
    None,
    Cl(usize),
    Chunked(usize),
}

impl BodyKind {
    fn small(&self) -> bool {
        match self {
            BodyKind::None => true,
            BodyKind::Cl(n) => *n <= 1024,
            BodyKind::Chunked(_) => false,
        }
    }
}

#[derive(Clone, Debug, PartialEq)]
enum LargeAction {
    ReadToEofThenWaitSuccessor,
    AnswerWithoutReading,
    Drop,
}

fn build_pipeline(rng: &mut Rng, trial: u64, kinds: &[BodyKind]) -> Vec<u8> {
    let mut wire = Vec::new();
    for (i, k) in kinds.iter().enumerate() {
        let method = if *k == BodyKind::None { "GET" } else { "POST" };
        let mut head = format!("{} /r/{:x}/{} HTTP/1.1\r\nHost: h\r\n", method, trial, i);
        // now and then a repeated Connection field (only its first line counts for the library);
        // the request stays an ordinary, persistent one
        if rng.chance(1, 8) {
            head.push_str(rng.pick_s(&["Connection: keep-alive\r\nConnection: Upgrade\r\n", "Connection: keep-alive\r\nConnection: x-hop, upgrade\r\n", "Connection: Keep-Alive\r\nConnection: close-notify\r\n"]));
        }
        match k {
            BodyKind::None => {
                head.push_str("\r\n");
                wire.extend_from_slice(head.as_bytes());
            }
            BodyKind::Cl(n) => {
                head.push_str(&format!("Content-Length: {}\r\n\r\n", n));
                wire.extend_from_slice(head.as_bytes());
                wire.extend_from_slice(&gen::body_bytes(trial ^ i as u64, *n, true));
            }
            BodyKind::Chunked(n) => {
                head.push_str("Transfer-Encoding: chunked\r\n\r\n");
                wire.extend_from_slice(head.as_bytes());
                let d = gen::body_bytes(trial ^ i as u64, *n, true);
                let ch = gen::gen_chunking(rng, *n, 900);
                wire.extend_from_slice(&gen::encode_chunked(&d, &ch));
            }
        }
    }
    wire
}

fn send_wire(rng: &mut Rng, c: &mut Client, wire: &[u8]) {
    if rng.chance(1, 2) || wire.len() < 4 {
        c.send(wire);
    } else {
        let k = rng.range(2, 4);
        let ends = gen::random_splits(rng, wire.len(), k);
        let mut pos = 0;
        for e in ends {
            c.send(&wire[pos..e]);
            pos = e;
            sleep_us(rng.range(0, 800) as u64);
        }
    }
}

fn run_trial(ctx: &Ctx, env: &Env, cs: u64, workers: bool) {
    let rep = &ctx.rep;
    let mut rng = Rng::new(cs);
    let trial = cs & 0xffff_ffff;
    let n = rng.range(2, 8);
    // worker-pool shape (eight threads blocked in recv, each stays with its request): program A
    let program_b = rng.chance(1, 2) && !workers;
    let small_kinds = [BodyKind::None, BodyKind::None, BodyKind::Cl(0), BodyKind::Cl(1), BodyKind::Cl(1023), BodyKind::Cl(1024), BodyKind::Cl(1024)];
    let large_kinds = [BodyKind::Cl(1025), BodyKind::Cl(20000), BodyKind::Chunked(3000), BodyKind::Chunked(10)];
    let mut kinds: Vec<BodyKind> = (0..n).map(|_| rng.pick(&small_kinds).clone()).collect();
    if program_b {
        let nl = rng.range(1, 2.min(n - 1).max(1));
        for _ in 0..nl {
            let at = rng.below(n - 1); // the last request has no successor to wait for
            kinds[at] = rng.pick(&large_kinds).clone();
        }
    }
    let wire = build_pipeline(&mut rng, trial, &kinds);
    let bound = Duration::from_millis(1500);
    let mut client = match Client::connect(&env.addr) {
        Ok(c) => c,
        Err(e) => {
            rep.inconclusive(&format!("connect: {}", e));
            return;
        }
    };
    let app = Arc::new(HoldApp {
        port: client.port,
        held: Mutex::new(Vec::new()),
        cv: Condvar::new(),
        blocking: workers,
        released: std::sync::atomic::AtomicBool::new(false),
    });
    if workers {
        rep.inc("A_trials_with_8_receivers_each_keeping_its_request");
    }
    env.set_app(Some(app.clone()));
    let cal = CalWindow::open();
    send_wire(&mut rng, &mut client, &wire);
    let mut verdict: Option<(String, String)> = None;
    let mut inconclusive: Option<String> = None;
    let mut log: Vec<String> = Vec::new();
    let sig;
    if !program_b {
        sig = format!("A|n{}|{:?}", n, kinds);
        let got = app.wait_count(n, bound);
        log.push(format!("{} of {} requests held while none was answered", got, n));
        if got >= 3 {
            rep.inc("A_trials_holding_3_or_more_unanswered");
        }
        if kinds.iter().any(|k| *k == BodyKind::Cl(1024)) {
            rep.inc("A_trials_with_body_of_exactly_1024");
        }
        if got < n {
            // (with every receiver keeping its request a control request would need a free
            // receiver and go through the very queue under test: the calibrator alone decides)
            let healthy = if workers { cal.healthy(Duration::from_millis(150)) } else { crate::conv::confirm_healthy(env, &cal, bound).0 };
            if !healthy {
                inconclusive = Some("A: pipeline not delivered, process/server not demonstrably running".into());
            } else {
                // kick: answer the oldest held request
                if let Some(rq) = app.take(0) {
                    let _ = lib(|| rq.respond(Response::from_string("kick")));
                }
                let after = app.wait_count(got + 1, Duration::from_millis(150));
                if after > got {
                    verdict = Some((
                        "C11/A/successor-waited-for-answer".into(),
                        format!(
                            "only {} of {} small-bodied pipelined requests became available while none was answered; request #{} appeared after request #0 was answered",
                            got, n, got
                        ),
                    ));
                } else {
                    verdict = Some((
                        "C11/A/pipeline-not-delivered".into(),
                        format!("only {} of {} small-bodied pipelined requests became available within the bound (answering the oldest did not help)", got, n),
                    ));
                }
            }
        }
        // answer everything in random order, each on its own thread
        let mut order: Vec<usize> = (0..app.held.lock().unwrap().len()).collect();
        rng.shuffle(&mut order);
        let mut hs = Vec::new();
        for k in order {
            if let Some(rq) = app.take(k) {
                hs.push(spawn_named(&format!("a{}", k), move || {
                    let _ = lib(|| rq.respond(Response::from_string(format!("ok {}", k))));
                }));
                sleep_us(rng.range(0, 300) as u64);
            }
        }
        for h in hs {
            let _ = h.join();
        }
    } else {
        let mut actions = Vec::new();
        let mut t_release = Instant::now();
        let mut release_what = "connection start".to_string();
        let mut k = 0usize;
        while k < n {
            let got = app.wait_count(k + 1, bound.saturating_sub(t_release.elapsed().min(bound)).max(Duration::from_millis(1)));
            if got <= k {
                let (healthy, _, _) = crate::conv::confirm_healthy(env, &cal, bound);
                if !healthy {
                    inconclusive = Some("B: successor missing, process/server not demonstrably running".into());
                } else {
                    verdict = Some((
                        "C11/B/successor-not-delivered".into(),
                        format!("request #{} was not delivered within the bound after: {}", k, release_what),
                    ));
                }
                break;
            }
            log.push(format!("request #{} delivered {} us after: {}", k, t_release.elapsed().as_micros(), release_what));
            let kind = kinds[k].clone();
            let mut rq = match app.take(k) {
                Some(r) => r,
                None => break,
            };
            if kind.small() {
                // small body: answer right away or hold it until the successor is there
                let hold = rng.chance(1, 2) && k + 1 < n;
                if hold {
                    t_release = Instant::now();
                    release_what = format!("request #{} (small body) parsed, still unanswered", k);
                    let got = app.wait_count(k + 2, bound);
                    if got < k + 2 {
                        let (healthy, _, _) = crate::conv::confirm_healthy(env, &cal, bound);
                        if !healthy {
                            inconclusive = Some("B: held small request, successor missing, unhealthy".into());
                            drop(rq);
                            break;
                        }
                        let _ = lib(|| rq.respond(Response::from_string("kick")));
                        let after = app.wait_count(k + 2, Duration::from_millis(150));
                        verdict = Some((
                            if after >= k + 2 { "C11/B/successor-waited-for-answer".into() } else { "C11/B/successor-not-delivered".into() },
                            format!("successor of unanswered small-bodied request #{} did not become available", k),
                        ));
                        break;
                    }
                    actions.push("small:hold-until-successor");
                    let _ = lib(|| rq.respond(Response::from_string("ok")));
                } else {
                    actions.push("small:answer");
                    let _ = lib(|| rq.respond(Response::from_string("ok")));
                    t_release = Instant::now();
                    release_what = format!("request #{} answered", k);
                }
                k += 1;
                continue;
            }
            let act = match rng.below(3) {
                0 => LargeAction::ReadToEofThenWaitSuccessor,
                1 => LargeAction::AnswerWithoutReading,
                _ => LargeAction::Drop,
            };
            match act {
                LargeAction::ReadToEofThenWaitSuccessor => {
                    actions.push("large:read-to-eof-then-wait");
                    let mut buf = vec![0u8; *rng.pick(&[1usize, 100, 4096, 65536])];
                    let mut total = 0usize;
                    let mut err = None;
                    // the ways an application reads a body to its end
                    let how = rng.below(5);
                    rep.inc(&format!("B_read_method:{}", ["read-loop", "read_to_end", "read_to_string", "io::copy", "read_vectored-loop"][how]));
                    match how {
                        1 => {
                            let mut v = Vec::new();
                            match lib(|| rq.as_reader().read_to_end(&mut v)) {
                                Ok(m) => total = m,
                                Err(e) => err = Some(e.to_string()),
                            }
                        }
                        2 => {
                            let mut v = String::new();
                            match lib(|| rq.as_reader().read_to_string(&mut v)) {
                                Ok(m) => total = m,
                                Err(e) => err = Some(e.to_string()),
                            }
                        }
                        3 => match lib(|| std::io::copy(rq.as_reader(), &mut std::io::sink())) {
                            Ok(m) => total = m as usize,
                            Err(e) => err = Some(e.to_string()),
                        },
                        4 => loop {
                            let cut = buf.len() / 2;
                            let (x, y) = buf.split_at_mut(cut);
                            let mut io = [std::io::IoSliceMut::new(x), std::io::IoSliceMut::new(y)];
                            match lib(|| rq.as_reader().read_vectored(&mut io)) {
                                Ok(0) => break,
                                Ok(m) => total += m,
                                Err(e) => {
                                    err = Some(e.to_string());
                                    break;
                                }
                            }
                        },
                        _ => loop {
                            match lib(|| rq.as_reader().read(&mut buf)) {
                                Ok(0) => break,
                                Ok(m) => total += m,
                                Err(e) => {
                                    err = Some(e.to_string());
                                    break;
                                }
                            }
                        },
                    }
                    if let Some(e) = err {
                        inconclusive = Some(format!("B: body read error {}", e));
                        drop(rq);
                        break;
                    }
                    t_release = Instant::now();
                    release_what = format!("body of request #{} ({} bytes) read until Ok(0), request still unanswered", k, total);
                    if k + 1 < n {
                        let got = app.wait_count(k + 2, bound);
                        if got < k + 2 {
                            let (healthy, _, _) = crate::conv::confirm_healthy(env, &cal, bound);
                            if !healthy {
                                inconclusive = Some("B: successor missing after EOF, unhealthy".into());
                                drop(rq);
                                break;
                            }
                            // kick: answer it
                            let _ = lib(|| rq.respond(Response::from_string("kick")));
                            let after = app.wait_count(k + 2, Duration::from_millis(150));
                            verdict = Some((
                                if after >= k + 2 { "C11/B/successor-waited-for-answer-after-body-read".into() } else { "C11/B/successor-not-delivered".into() },
                                format!(
                                    "after the {} body of request #{} was read to its end the successor did not become available{}",
                                    match kind {
                                        BodyKind::Chunked(_) => "chunked",
                                        _ => "large",
                                    },
                                    k,
                                    if after >= k + 2 { "; it appeared once the request was answered" } else { "" }
                                ),
                            ));
                            break;
                        }
                        rep.inc("B_successor_seen_before_answer_after_eof");
                    }
                    let _ = lib(|| rq.respond(Response::from_string("ok")));
                }
                LargeAction::AnswerWithoutReading => {
                    actions.push("large:answer-without-reading");
                    let _ = lib(|| rq.respond(Response::from_string("ok")));
                    t_release = Instant::now();
                    release_what = format!("request #{} answered without reading its body", k);
                }
                LargeAction::Drop => {
                    actions.push("large:drop");
                    lib(|| drop(rq));
                    t_release = Instant::now();
                    release_what = format!("request #{} dropped", k);
                }
            }
            k += 1;
        }
        // anything still held is answered so the connection can end
        let left = app.held.lock().unwrap().len();
        for i in 0..left {
            if let Some(rq) = app.take(i) {
                let _ = lib(|| rq.respond(Response::from_string("late")));
            }
        }
        sig = format!("B|n{}|{:?}|{:?}", n, kinds, actions);
    }
    app.release();
    env.set_app(None);
    client.half_close();
    let _ = client.await_end(&|_| false, Duration::from_millis(if verdict.is_some() { 100 } else { 1500 }));
    // drop whatever arrived late
    let left = app.held.lock().unwrap().len();
    for i in 0..left {
        if let Some(rq) = app.take(i) {
            drop(rq);
        }
    }
    rep.inc(if program_b { "program:B" } else { "program:A" });
    if let Some(why) = inconclusive {
        rep.inconclusive(&why);
        return;
    }
    rep.eval(Some(&sig));
    let detail = J::obj()
        .set("program", J::s(if program_b { "B" } else { "A" }))
        .set("body_kinds", J::s(format!("{:?}", kinds)))
        .set("wire_len", J::u(wire.len()))
        .set("log", J::A(log.iter().map(J::s).collect()))
        .set(
            "deliveries",
            J::A(app.held.lock().unwrap().iter().map(|h| J::s(format!("{} at {} us", h.url, h.t_ns / 1000))).collect()),
        );
    if let Some((s, what)) = verdict {
        rep.violation(Violation { signature: s, what, detail, case_seed: cs, mode: if workers { "workers".into() } else { "native".into() } });
    } else if rep.want_sample() && cs % 7 == 0 {
        rep.sample(|| detail);
    }
}

pub fn run(ctx: &Ctx) {
    crate::env::install_fp_hook();
    if let Some((cs, mode, repeat)) = &ctx.replay {
        let workers = mode == "workers";
        let env = Env::new(false, if workers { 8 } else { 1 });
        crate::env::fp_configure(*cs, &[v::FP_READER_HANDOFF, v::FP_CONN_PRE_PUSH], 150, 300);
        for _ in 0..(*repeat).max(1) {
            run_trial(ctx, &env, *cs, workers);
        }
        return;
    }
    let mut rng = Rng::new(ctx.seed ^ ((ctx.shard as u64) << 32) ^ 0xC11);
    let pert = crate::env::perturb_setup(&mut rng, ctx.shard, true);
    let permille = *rng.pick(&[0u32, 100, 300]);
    crate::env::fp_configure(ctx.seed ^ ctx.shard as u64, &[v::FP_READER_HANDOFF, v::FP_CONN_PRE_PUSH], permille, 300);
    // a third of the shards: an application of eight worker threads blocked in recv
    let workers = ctx.shard % 3 == 1;
    let ndisp = if workers { 8 } else { 1 };
    // a quarter of the shards talk to a UNIX-socket listener
    let unix = ctx.shard % 4 == 2;
    let mut env = Env::new(unix, ndisp);
    let mut idx = 0u64;
    while ctx.time_left() {
        if env.cases_run >= 2000 {
            env = Env::new(unix, ndisp);
        }
        run_trial(ctx, &env, ctx.case_seed(idx), workers);
        env.cases_run += 1;
        idx += 1;
        if ctx.rep.n_violations() >= 8 {
            break;
        }
    }
    ctx.rep.set_extra("perturbation", J::s(format!("{} fp_delay_permille={}", pert.desc, permille)));
    ctx.rep.inc(if unix { "shards_on_unix_socket" } else { "shards_on_tcp" });
    ctx.rep.set_extra("failpoints", J::O(crate::env::fp_hits().into_iter().map(|(k, v)| (k, J::I(v as i64))).collect()));
}
