//! C14 – no client input aborts the process, panics a thread inside the library or forces an
//! allocation proportional to a length the client merely declares.
//! Cases run sequentially inside a worker; the worker writes BEGIN/END lines to a side file so
//! that the parent can name the case that killed it. The counting allocator (alloc.rs) charges
//! library threads and library calls made by harness threads.

use crate::conv::*;
use crate::env::Env;
use crate::report::Violation;
use crate::util::{Rng, J};
use crate::Ctx;
use std::io::Write;

const DECLARED: &[&str] = &[
    "1025", "1000000", "2147483648", "4294967296", "1000000000000", "9223372036854775807", "9223372036854775808",
    "18446744073709551615", "18446744073709551616", "1000000000000000000000000000000", "4000000000000", "70000",
];

pub struct Case {
    pub label: String,
    pub wire: Vec<u8>,
    pub plans: Vec<ReqPlan>,
    pub end: Step,
}

fn gen_plan(rng: &mut Rng) -> ReqPlan {
    let read = match rng.below(3) {
        0 => ReadPlan::None,
        1 => ReadPlan::Upto(1),
        _ => ReadPlan::ToEof { extra: 0 },
    };
    let finish = match rng.below(3) {
        0 => Finish::Respond { status: 200, body_len: *rng.pick(&[5usize, 0, 3000]), declared: rng.chance(1, 2), threshold: None, max_piece: 1000 },
        1 => Finish::Drop,
        _ => Finish::Writer { status: 200, body_len: 5, parts: vec![(1000, true)], early_drop_sleep_us: 0, vectored: false },
    };
    ReqPlan { read, read_sizes: vec![*rng.pick(&[1usize, 100, 4096, 65536])], as_reader_calls: 1, finish, pre_delay_us: 0, zero_read_after: None, read_api: ReadApi::Read }
}

fn sprinkle(rng: &mut Rng, b: &mut Vec<u8>, n: usize) {
    for _ in 0..n {
        if b.is_empty() {
            return;
        }
        let at = rng.below(b.len());
        b[at] = match rng.below(4) {
            0 => 0,
            1 => rng.below(0x20) as u8,
            2 => 0x80 + rng.below(0x80) as u8,
            _ => 0x7f,
        };
    }
}

pub fn gen_case(rng: &mut Rng, thorough: bool) -> Case {
    let class = if rng.chance(1, 40) { 99 } else { rng.below(if thorough { 10 } else { 9 }) };
    let mut plans = vec![gen_plan(rng), gen_plan(rng), gen_plan(rng)];
    let mut wire: Vec<u8>;
    let mut label;
    match class {
        0 | 1 => {
            let d = *rng.pick(DECLARED);
            let sent = rng.below(201);
            label = format!("content-length:{}+{}B", d, if sent == 0 { "0".to_string() } else { "some".to_string() });
            wire = format!("POST /a HTTP/1.1\r\nHost: h\r\nContent-Length: {}\r\n\r\n", d).into_bytes();
            wire.extend(std::iter::repeat(b'x').take(sent));
        }
        2 => {
            let digits = rng.range(1, 40);
            let hex: String = if rng.chance(1, 4) {
                "ffffffffffffffff".to_string()
            } else {
                (0..digits).map(|i| if i == 0 { *rng.pick(&['1', '7', 'f', 'F', '8']) } else { *rng.pick(&['0', '1', 'a', 'F', '9']) }).collect()
            };
            let follows = rng.below(300);
            label = format!("chunk-size:{}digits", hex.len());
            wire = b"POST /c HTTP/1.1\r\nHost: h\r\nTransfer-Encoding: chunked\r\n\r\n".to_vec();
            if rng.chance(1, 3) {
                wire.extend_from_slice(b"3\r\nabc\r\n");
            }
            wire.extend_from_slice(hex.as_bytes());
            if rng.chance(1, 4) {
                wire.extend_from_slice(b";ext=1");
            }
            wire.extend_from_slice(b"\r\n");
            wire.extend(std::iter::repeat(b'y').take(follows));
        }
        3 => {
            let n = *rng.pick(&[100usize, 1000, 10000]);
            label = format!("many-headers:{}", n);
            wire = b"GET /h HTTP/1.1\r\n".to_vec();
            for i in 0..n {
                wire.extend_from_slice(format!("X-H{}: v{}\r\n", i, i).as_bytes());
            }
            wire.extend_from_slice(b"\r\n");
        }
        4 => {
            let n = *rng.pick(&[2000usize, 70000, 300000]);
            label = format!("long-line:{}", n);
            if rng.chance(1, 2) {
                wire = format!("GET /{} HTTP/1.1\r\nHost: h\r\n\r\n", "a".repeat(n)).into_bytes();
            } else {
                wire = format!("GET /l HTTP/1.1\r\nX-Long: {}\r\n\r\n", "b".repeat(n)).into_bytes();
            }
        }
        5 => {
            label = "odd-bytes".to_string();
            wire = b"POST /o HTTP/1.1\r\nHost: h\r\nContent-Length: 10\r\nX-A: b\r\n\r\n0123456789GET /p HTTP/1.1\r\n\r\n".to_vec();
            let k = rng.range(1, 4);
            sprinkle(rng, &mut wire, k);
        }
        6 => {
            label = "garbage".to_string();
            let n = rng.range(1, 3000);
            wire = (0..n).map(|_| rng.below(256) as u8).collect();
            if rng.chance(1, 2) {
                wire.extend_from_slice(b"\r\n\r\n");
            }
        }
        7 if rng.chance(1, 3) => {
            // methods and versions that decide how the *answer* is framed (HEAD: no body is
            // sent; HTTP/1.0 or TE: identity: a body of undeclared length has to be measured)
            label = "answer-framing".to_string();
            let m = *rng.pick(&["HEAD", "HEAD", "GET", "OPTIONS"]);
            let first = match rng.below(3) {
                0 => format!("{} /hf HTTP/1.0\r\nHost: h\r\nConnection: keep-alive\r\n\r\n", m),
                1 => format!("{} /hf HTTP/1.1\r\nHost: h\r\nTE: identity\r\n\r\n", m),
                _ => format!("{} /hf HTTP/1.1\r\nHost: h\r\nTE: identity;q=1, chunked;q=0\r\n\r\n", m),
            };
            wire = format!("{}{} /hf2 HTTP/1.1\r\nHost: h\r\nTE: chunked\r\n\r\n", first, m).into_bytes();
        }
        7 => {
            // valid-looking pipeline with odd framing headers
            label = "odd-framing".to_string();
            let v = *rng.pick(&[
                "Content-Length: 5\r\nContent-Length: 7",
                "Transfer-Encoding: gzip",
                "Transfer-Encoding: chunked\r\nTransfer-Encoding: chunked",
                "Content-Length: 00000000000000000000005",
                "Expect: 100-continue\r\nContent-Length: 99999999999",
                "Connection: upgrade\r\nContent-Length: 99999999999999",
                "Content-Length: 1024\r\nExpect: 100-continue",
            ]);
            wire = format!("POST /f HTTP/1.1\r\nHost: h\r\n{}\r\n\r\nhello world", v).into_bytes();
        }
        99 => {
            // very many requests on one connection that the library answers by itself
            let n = *rng.pick(&[300usize, 3000, 20000]);
            let v = *rng.pick(&["HTTP/2.0", "HTTP/3.0"]);
            label = format!("many-505:{}", n);
            let unit = format!("GET /x {}\r\nHost: h\r\n\r\n", v);
            wire = unit.as_bytes().repeat(n);
            wire.extend_from_slice(b"GET /last HTTP/1.1\r\nHost: h\r\nConnection: close\r\n\r\n");
        }
        8 => {
            // header values that the library itself interprets, with hostile contents
            let te = *rng.pick(&[
                "gzip;q=NaN, chunked;q=0.5", "chunked;q=nan, identity;q=NaN", "identity;q=inf, chunked;q=-inf", "chunked;q=1e400, identity;q=-1e400",
                "chunked;q=-0, identity;q=+0", ",,,;;;,", ";q=1, ;q=0", "chunked;q=0.5;q=NaN, identity;q=NaN;q=1",
                "a;q=NaN, b;q=NaN, c;q=NaN, chunked;q=NaN, identity;q=0.1", "chunked;q=340282350000000000000000000000000000001",
            ]);
            let conn = *rng.pick(&["keep-alive", ",,,", "close, close, close", "\u{7f}", "upgrade, close"]);
            label = format!("odd-te:{}", te.len());
            let long = if rng.chance(1, 4) { format!("TE: {}\r\n", vec!["x;q=NaN"; 2000].join(", ")) } else { String::new() };
            wire = format!("GET /t HTTP/1.1\r\nHost: h\r\nTE: {}\r\n{}Connection: {}\r\n\r\nGET /t2 HTTP/1.1\r\nTE: {}\r\n\r\n", te, long, conn, te).into_bytes();
        }
        _ => {
            let n = 5_000_000;
            label = "5MB-line".to_string();
            if rng.chance(1, 2) {
                wire = format!("GET /{} HTTP/1.1\r\nHost: h\r\n\r\n", "a".repeat(n)).into_bytes();
            } else {
                wire = format!("GET /l HTTP/1.1\r\nX-Long: {}\r\n\r\n", "b".repeat(n)).into_bytes();
            }
        }
    }
    // everything truncated at random points
    if class != 99 && rng.chance(1, 4) && wire.len() > 2 {
        let at = rng.range(1, wire.len() - 1);
        wire.truncate(at);
        label.push_str("+truncated");
    }
    if rng.chance(1, 6) {
        plans.truncate(1);
    }
    let end = match if class == 99 { 2 } else { rng.below(3) } {
        0 => Step::Close,
        1 => Step::Reset,
        _ => Step::HalfClose,
    };
    Case { label, wire, plans, end }
}

pub fn run_case(ctx: &Ctx, env: &Env, cs: u64, side: &mut Option<std::fs::File>) {
    let rep = &ctx.rep;
    let mut rng = Rng::new(cs);
    let c = gen_case(&mut rng, ctx.thorough);
    if let Some(f) = side.as_mut() {
        let _ = writeln!(f, "BEGIN {} {}", cs, c.label);
        let _ = f.flush();
    }
    let wl = c.wire.len();
    let mut script = vec![Step::Send(0, wl)];
    match c.end {
        Step::HalfClose => {
            script.push(Step::HalfClose);
            script.push(Step::AwaitEnd);
        }
        ref s => {
            script.push(Step::SleepUs(rng.range(0, 2000) as u64));
            script.push(s.clone());
        }
    }
    let case = ConvCase {
        label: c.label.clone(),
        unix: false,
        reqs: vec![WireReq { bytes: c.wire.clone(), head_len: wl, label: c.label.clone(), abs: None }],
        wire: c.wire.clone(),
        plans: c.plans.clone(),
        script,
        exp_delivered: Vec::new(),
        exp_responses: Vec::new(),
        exp_eof: false,
        delivery_optional: true,
        bound_ms: 3000,
        sched: Sched::Immediate,
        keep_read_track: true,
    };
    let panics_before = crate::env::panics_count();
    if std::env::var("VH_DEBUG_INFLIGHT").is_ok() {
        let f = crate::env::tasks_in_flight();
        if f != 0 {
            eprintln!("case {} [{}] starts with {} connection task(s) in flight", cs, c.label, f);
        }
    }
    let acc0 = crate::env::accepted_count();
    let con0 = crate::net::CONNECTS.load(std::sync::atomic::Ordering::SeqCst);
    if std::env::var("VH_ALLOC_TRACE").is_ok() {
        crate::alloc::trace_allocations_over(64 * 1024);
    }
    crate::alloc::track_begin();
    let obs = run_conv(env, &case);
    // attribution: the connection thread of this case must be done before the counters are read
    // (a client that resets early returns long before the server has chewed through a long line)
    let made = crate::net::CONNECTS.load(std::sync::atomic::Ordering::SeqCst) - con0;
    let quiet = crate::env::wait_tasks_done(acc0 + made, std::time::Duration::from_secs(5));
    crate::env::reads_forget(obs.client_port);
    let fl = crate::env::tasks_in_flight();
    if fl < 0 {
        rep.inc("diag_inflight_negative_after_case");
    } else if fl > 0 {
        rep.inc("diag_inflight_positive_after_case");
    }
    let _global = crate::alloc::track_end();
    // counters of this case's own connection (client port), not of the process
    let st = crate::alloc::key_stats(obs.client_port);
    let sent = wl as u64;
    if !quiet && crate::env::panics_count() > panics_before {
        // a worker that panicked never reports the end of its task; the panic itself is the verdict
        let ps = crate::env::panics_take();
        let p = ps.last().unwrap();
        let site = p.location.rsplit('/').next().unwrap_or("").to_string();
        rep.eval(None);
        rep.violation(Violation {
            signature: format!("C14/panic/{}", site),
            what: format!("panic in thread {:?}: {} at {}", p.thread, p.message, p.location),
            detail: J::obj()
                .set("class", J::s(&c.label))
                .set("wire_head", J::S(crate::util::esc(&c.wire, 300)))
                .set("end", J::s(format!("{:?}", c.end)))
                .set("panics", J::A(ps.iter().map(|p| J::s(format!("{} | {} | {}", p.thread, p.message, p.location))).collect())),
            case_seed: cs,
            mode: "native".into(),
        });
        if let Some(f) = side.as_mut() {
            let _ = writeln!(f, "END {}", cs);
        }
        return;
    }
    if !quiet {
        // the connection thread is still busy: allocation counters cannot be attributed
        rep.inconclusive("connection task did not finish within 5 s after the case");
        if let Some(f) = side.as_mut() {
            let _ = writeln!(f, "END {}", cs);
        }
        return;
    }
    let class = c.label.split(':').next().unwrap_or("").split('+').next().unwrap_or("").to_string();
    rep.inc(&format!("class:{}", class));
    rep.counts.max("largest_single_allocation_request", st.max_single);
    rep.counts.max("largest_allocation_volume_per_case", st.volume);
    let ratio = st.volume / sent.max(1);
    rep.counts.max("max_volume_to_bytes_sent_ratio_when_over_64KiB", if st.volume > 65536 { ratio } else { 0 });
    rep.counts.add("deliveries", obs.delivered.len() as u64);
    let plan0 = c.plans.first().map(|p| format!("{}:{}", p.read_label(usize::MAX), p.finish_label())).unwrap_or_default();
    rep.eval(Some(&format!("{}|{}|{:?}", c.label, plan0, c.end)));
    let detail = |extra: J| {
        J::obj()
            .set("class", J::s(&c.label))
            .set("bytes_sent", J::I(sent as i64))
            .set("wire", J::S(crate::util::esc(&c.wire, 400)))
            .set("plans", J::A(c.plans.iter().map(|p| J::s(format!("read={:?} finish={}", p.read, p.finish_label()))).collect()))
            .set("client_end", J::s(format!("{:?}", c.end)))
            .set("alloc", J::s(format!("{:?}", st)))
            .set("largest_allocation_backtrace", J::s(crate::alloc::take_trace()))
            .set("deliveries", J::A(obs.delivered.iter().map(|d| d.to_json()).collect()))
            .set("extra", extra)
    };
    let mut fired = false;
    if crate::env::panics_count() > panics_before {
        let ps = crate::env::panics_take();
        let p = ps.last().unwrap();
        let site = p.location.rsplit('/').next().unwrap_or("").to_string();
        rep.violation(Violation {
            signature: format!("C14/panic/{}", site),
            what: format!("panic in thread {:?}: {} at {}", p.thread, p.message, p.location),
            detail: detail(J::A(ps.iter().map(|p| J::s(format!("{} | {} | {}", p.thread, p.message, p.location))).collect())),
            case_seed: cs,
            mode: "native".into(),
        });
        fired = true;
    }
    // a Vec of parsed headers costs 48 bytes per header line of >= 4 bytes and doubles: <= 24x
    let limit_single = (64 * 1024).max(32 * sent);
    if !fired && st.max_single > limit_single {
        rep.violation(Violation {
            signature: format!("C14/allocation-proportional-to-declared-length/{}", class),
            what: format!(
                "a single allocation of {} bytes was requested on behalf of a connection that had sent {} bytes",
                st.max_single, sent
            ),
            detail: detail(J::Null),
            case_seed: cs,
            mode: "native".into(),
        });
        fired = true;
    }
    // The cumulative allocation volume is reported as evidence only. It is not memory *used*:
    // 20 000 tiny pipelined requests legitimately allocate (and free) a few KiB each, 160 times
    // the bytes received; judging it was an oracle stricter than the statement (see DESIGN 10).
    rep.counts.max("max_allocation_volume_to_bytes_sent_ratio", st.volume / sent.max(1));
    if !fired && !obs.handlers_done && obs.healthy {
        rep.violation(Violation {
            signature: format!("C14/handler-blocked/{}", class),
            what: "an application call into the library did not return after the client was gone".into(),
            detail: detail(J::Null),
            case_seed: cs,
            mode: "native".into(),
        });
    }
    if let Some(f) = side.as_mut() {
        let _ = writeln!(f, "END {}", cs);
        let _ = f.flush();
    }
    if rep.want_sample() && cs % 31 == 0 {
        rep.sample(|| detail(J::Null));
    }
}

pub fn run(ctx: &Ctx) {
    crate::env::install_fp_hook();
    crate::env::track_reads(true);
    // an absurd allocation must fail fast instead of being lazily granted (not under
    // AddressSanitizer: its shadow memory needs terabytes of address space, and its allocator
    // refuses absurd sizes by itself)
    if std::env::var("ASAN_OPTIONS").is_err() {
        unsafe {
            let lim = libc::rlimit { rlim_cur: 8 << 30, rlim_max: 8 << 30 };
            libc::setrlimit(libc::RLIMIT_AS, &lim);
        }
    }
    let side_path = std::env::var("VH_SIDE_FILE").ok();
    let mut side = side_path.and_then(|p| std::fs::OpenOptions::new().create(true).append(true).open(p).ok());
    let mut env = Env::new(false, 1);
    if let Some((cs, _, repeat)) = &ctx.replay {
        for _ in 0..(*repeat).max(1) {
            run_case(ctx, &env, *cs, &mut side);
        }
        return;
    }
    let mut idx = 0u64;
    while ctx.time_left() {
        if env.cases_run >= 2000 {
            env = Env::new(false, 1);
        }
        run_case(ctx, &env, ctx.case_seed(idx), &mut side);
        env.cases_run += 1;
        idx += 1;
        if idx % 50 == 0 && env.control(std::time::Duration::from_millis(1500)).is_none() {
            ctx.rep.violation(Violation {
                signature: "C14/server-stopped-serving".into(),
                what: "the server no longer serves fresh connections".into(),
                detail: J::Null,
                case_seed: ctx.case_seed(idx),
                mode: "native".into(),
            });
            break;
        }
        if ctx.rep.n_violations() >= 10 {
            break;
        }
    }
}
