//! `vh` – runtime-monitoring harness for tiny-http (see /verif/DESIGN.md).
//!
//! vh run <Cxx> --seed S --shard I --nshards N --budget-ms B --tier quick|thorough --out FILE
//! vh replay <Cxx> --case-seed X --mode M [--repeat K] --out FILE

mod alloc;
mod util;
mod httpc;
mod model;
mod report;
mod gen;
mod net;
mod env;
mod conv;
mod p04;
mod p05;
mod p19;
mod pconv;
mod p01;
mod p07;
mod p08;
mod p11;
mod p13;
mod p14;
mod p15;
mod p17;
mod p20;

#[global_allocator]
static GLOBAL: alloc::Counting = alloc::Counting;

use std::time::Instant;

pub struct Ctx {
    pub prop: String,
    pub seed: u64,
    pub shard: usize,
    pub nshards: usize,
    pub budget_ms: u64,
    pub thorough: bool,
    pub rep: report::Reporter,
    pub start: Instant,
    /// replay: run exactly this case seed (and mode) instead of generating
    pub replay: Option<(u64, String, usize)>,
}

impl Ctx {
    pub fn time_left(&self) -> bool {
        (self.start.elapsed().as_millis() as u64) < self.budget_ms
    }
    pub fn elapsed_ms(&self) -> u64 {
        self.start.elapsed().as_millis() as u64
    }
    /// seed of the idx-th case of this shard
    pub fn case_seed(&self, idx: u64) -> u64 {
        let cs = util::mix(self.seed, self.shard as u64, idx);
        // remembered for the abort / panic reporters (engines with several replay modes set the
        // mode themselves)
        util::CURRENT_CASE.store(cs, std::sync::atomic::Ordering::Relaxed);
        cs
    }
}

fn arg<'a>(args: &'a [String], name: &str) -> Option<&'a str> {
    args.iter().position(|a| a == name).and_then(|i| args.get(i + 1)).map(|s| s.as_str())
}

fn main() {
    alloc::mark_harness_thread();
    let args: Vec<String> = std::env::args().collect();
    if args.len() < 3 {
        eprintln!("usage: vh run|replay <Cxx> ...");
        std::process::exit(2);
    }
    let cmd = args[1].clone();
    let prop = args[2].clone();
    let seed: u64 = arg(&args, "--seed").and_then(|s| s.parse().ok()).unwrap_or(1);
    let shard: usize = arg(&args, "--shard").and_then(|s| s.parse().ok()).unwrap_or(0);
    let nshards: usize = arg(&args, "--nshards").and_then(|s| s.parse().ok()).unwrap_or(1);
    let budget_ms: u64 = arg(&args, "--budget-ms").and_then(|s| s.parse().ok()).unwrap_or(5000);
    let thorough = arg(&args, "--tier") == Some("thorough");
    let out = arg(&args, "--out").map(|s| s.to_string());
    let replay = if cmd == "replay" {
        let cs: u64 = arg(&args, "--case-seed").and_then(|s| s.parse().ok()).expect("--case-seed");
        let mode = arg(&args, "--mode").unwrap_or("").to_string();
        let rep: usize = arg(&args, "--repeat").and_then(|s| s.parse().ok()).unwrap_or(1);
        Some((cs, mode, rep))
    } else {
        None
    };

    // SIGPIPE: std already ignores it for Rust binaries; writes to a closed socket return EPIPE.
    util::calibrator_start();
    env::install_panic_hook();
    util::install_abort_reporter();

    let ctx = Ctx {
        prop: prop.clone(),
        seed,
        shard,
        nshards,
        budget_ms,
        thorough,
        rep: report::Reporter::new(&prop),
        start: Instant::now(),
        replay,
    };

    // watchdog of the worker itself: if the run does not come to an end (a library call that never
    // returns can stop the harness's own loop), what was observed so far is still reported
    let ctx: &'static Ctx = Box::leak(Box::new(ctx));
    if let Some(wd) = arg(&args, "--watchdog-s").and_then(|s| s.parse::<u64>().ok()) {
        let out2 = out.clone();
        util::spawn_named("watchdog", move || {
            std::thread::sleep(std::time::Duration::from_secs(wd));
            ctx.rep.inconclusive(&format!("worker watchdog: run did not end within {} s, partial results reported", wd));
            let doc = ctx.rep.to_json(seed, shard, ctx.start.elapsed().as_secs_f64()).to_string();
            match out2 {
                Some(p) => {
                    let _ = std::fs::write(&p, doc);
                }
                None => println!("{}", doc),
            }
            std::process::exit(0);
        });
    }
    match prop.as_str() {
        "C01" => p01::run(ctx, false),
        "C06" => p01::run(ctx, true),
        "C02" | "C03" | "C09" | "C10" | "C12" | "C16" | "C18" => pconv::run(ctx),
        "C04" => p04::run(ctx),
        "C05" => p05::run(ctx),
        "C07" => p07::run(ctx),
        "C08" => p08::run(ctx),
        "C11" => p11::run(ctx),
        "C13" => p13::run(ctx),
        "C14" => p14::run(ctx),
        "C15" => p15::run(ctx),
        "C17" => p17::run(ctx),
        "C19" => p19::run(ctx),
        "C20" => p20::run(ctx),
        "selftest" => selftest(),
        _ => {
            eprintln!("unknown property {}", prop);
            std::process::exit(2);
        }
    }

    let wall = ctx.start.elapsed().as_secs_f64();
    let doc = ctx.rep.to_json(seed, shard, wall).to_string();
    match out {
        Some(p) => std::fs::write(&p, doc).expect("write shard output"),
        None => println!("{}", doc),
    }
    // leave without waiting for library threads that may (legitimately or not) still be blocked
    std::process::exit(0);
}

fn selftest() {
    // sanity checks of the independent parser against hand-written messages
    let m = b"HTTP/1.1 200 OK\r\nContent-Length: 3\r\nX: y\r\n\r\nabcHTTP/1.1 204 No Content\r\n\r\n";
    let (rs, err) = httpc::parse_stream(m, &|_| false);
    assert!(err.is_none(), "{:?}", err);
    assert_eq!(rs.len(), 2);
    assert_eq!(rs[0].body, b"abc");
    let m = b"HTTP/1.1 200 OK\r\nTransfer-Encoding: chunked\r\n\r\n3\r\nabc\r\n2;x=y\r\nde\r\n0\r\n\r\n";
    let (rs, err) = httpc::parse_stream(m, &|_| false);
    assert!(err.is_none(), "{:?}", err);
    assert_eq!(rs[0].body, b"abcde");
    assert_eq!(httpc::parse_imf_fixdate("Wed, 04 May 1983 11:17:00 GMT"), Some(420895020));
    assert_eq!(httpc::parse_imf_fixdate("Thu, 01 Jan 1970 00:00:00 GMT"), Some(0));
    assert!(httpc::parse_imf_fixdate("Tue, 04 May 1983 11:17:00 GMT").is_none());
    println!("selftest ok");
}
