//! Independent client-side HTTP/1.x response parser (RFC 7230 section 3.3.3 body length rules) and
//! strict chunk decoder. Written without tiny-http or chunked_transfer: it is the reference
//! "conforming client" of the monitors.

#[derive(Clone, Debug, PartialEq, Eq)]
pub enum Framing {
    /// no body by rule (HEAD, 1xx, 204, 304)
    Bodiless,
    ContentLength(usize),
    /// chunk payload sizes as seen on the wire (without the terminating 0)
    Chunked(Vec<usize>),
    /// neither Content-Length nor chunked: the message ends when the connection closes
    UntilClose,
}

#[derive(Clone, Debug)]
pub struct Resp {
    pub version: (u8, u8),
    pub status: u16,
    pub reason: String,
    /// (name as sent, value with OWS removed)
    pub headers: Vec<(String, String)>,
    pub body: Vec<u8>,
    pub framing: Framing,
    /// number of bytes of the head (status line + headers + blank line)
    pub head_len: usize,
    /// total bytes of the message on the wire
    pub wire_len: usize,
}

impl Resp {
    pub fn header(&self, name: &str) -> Option<&str> {
        self.headers
            .iter()
            .find(|(n, _)| n.eq_ignore_ascii_case(name))
            .map(|(_, v)| v.as_str())
    }
    pub fn header_count(&self, name: &str) -> usize {
        self.headers.iter().filter(|(n, _)| n.eq_ignore_ascii_case(name)).count()
    }
    pub fn is_interim(&self) -> bool {
        (100..200).contains(&self.status) && self.status != 101
    }
}

#[derive(Clone, Debug)]
pub enum Parse {
    /// need more bytes
    Incomplete,
    /// one complete message, number of bytes consumed
    Done(Resp, usize),
    /// head complete, body runs until connection close: `Resp.body` is empty, `usize` = head length
    UntilClose(Resp, usize),
    /// not a well-formed message
    Bad(String),
}

fn is_tchar(c: u8) -> bool {
    matches!(c, b'!' | b'#' | b'$' | b'%' | b'&' | b'\'' | b'*' | b'+' | b'-' | b'.' | b'^' | b'_' | b'`' | b'|' | b'~')
        || c.is_ascii_alphanumeric()
}

fn find_crlf(buf: &[u8], from: usize) -> Option<usize> {
    if buf.len() < 2 {
        return None;
    }
    let mut i = from;
    while i + 1 < buf.len() {
        if buf[i] == b'\r' && buf[i + 1] == b'\n' {
            return Some(i);
        }
        i += 1;
    }
    None
}

fn trim_ows(mut s: &[u8]) -> &[u8] {
    while let Some((f, rest)) = s.split_first() {
        if *f == b' ' || *f == b'\t' {
            s = rest;
        } else {
            break;
        }
    }
    while let Some((l, rest)) = s.split_last() {
        if *l == b' ' || *l == b'\t' {
            s = rest;
        } else {
            break;
        }
    }
    s
}

/// Parses the head of a response. Ok(None) = incomplete.
pub fn parse_head(buf: &[u8]) -> Result<Option<(Resp, usize)>, String> {
    // status line
    let e = match find_crlf(buf, 0) {
        Some(e) => e,
        None => {
            if buf.len() > 65536 {
                return Err("status line longer than 64 KiB".into());
            }
            // early garbage detection: a response must start with "HTTP/"
            let p = b"HTTP/";
            let n = buf.len().min(p.len());
            if buf[..n] != p[..n] {
                return Err(format!("message does not start with HTTP/: {}", crate::util::esc(buf, 60)));
            }
            return Ok(None);
        }
    };
    let line = &buf[..e];
    // HTTP/D.D SP DDD SP reason
    if line.len() < 12
        || &line[..5] != b"HTTP/"
        || !line[5].is_ascii_digit()
        || line[6] != b'.'
        || !line[7].is_ascii_digit()
        || line[8] != b' '
        || !line[9].is_ascii_digit()
        || !line[10].is_ascii_digit()
        || !line[11].is_ascii_digit()
    {
        return Err(format!("malformed status line: {}", crate::util::esc(line, 80)));
    }
    if line.len() > 12 && line[12] != b' ' {
        return Err(format!("malformed status line (no SP after code): {}", crate::util::esc(line, 80)));
    }
    if line.len() == 12 {
        return Err(format!("malformed status line (missing SP reason): {}", crate::util::esc(line, 80)));
    }
    let reason = &line[13..];
    if reason.iter().any(|c| *c == b'\r' || *c == b'\n' || (*c < 0x20 && *c != b'\t') || *c == 0x7f) {
        return Err("control character in reason phrase".into());
    }
    let version = (line[5] - b'0', line[7] - b'0');
    let status = (line[9] - b'0') as u16 * 100 + (line[10] - b'0') as u16 * 10 + (line[11] - b'0') as u16;

    let mut headers = Vec::new();
    let mut pos = e + 2;
    loop {
        let e = match find_crlf(buf, pos) {
            Some(e) => e,
            None => {
                if buf.len() - pos > 1 << 20 {
                    return Err("header line longer than 1 MiB".into());
                }
                return Ok(None);
            }
        };
        let line = &buf[pos..e];
        pos = e + 2;
        if line.is_empty() {
            break;
        }
        let colon = match line.iter().position(|c| *c == b':') {
            Some(c) => c,
            None => return Err(format!("header line without colon: {}", crate::util::esc(line, 80))),
        };
        let name = &line[..colon];
        if name.is_empty() || !name.iter().all(|c| is_tchar(*c)) {
            return Err(format!("invalid header name: {}", crate::util::esc(line, 80)));
        }
        let value = trim_ows(&line[colon + 1..]);
        if value.iter().any(|c| *c == b'\r' || *c == b'\n' || *c == 0) {
            return Err(format!("CR/LF/NUL in header value: {}", crate::util::esc(line, 80)));
        }
        headers.push((
            String::from_utf8_lossy(name).into_owned(),
            String::from_utf8_lossy(value).into_owned(),
        ));
    }
    Ok(Some((
        Resp {
            version,
            status,
            reason: String::from_utf8_lossy(reason).into_owned(),
            headers,
            body: Vec::new(),
            framing: Framing::Bodiless,
            head_len: pos,
            wire_len: pos,
        },
        pos,
    )))
}

/// Strict chunked decoder. Ok(None) = incomplete. Returns (payload, chunk sizes, bytes consumed).
pub fn decode_chunked(buf: &[u8]) -> Result<Option<(Vec<u8>, Vec<usize>, usize)>, String> {
    let mut pos = 0usize;
    let mut out = Vec::new();
    let mut sizes = Vec::new();
    loop {
        let e = match find_crlf(buf, pos) {
            Some(e) => e,
            None => {
                if buf.len() - pos > 4096 {
                    return Err("chunk-size line longer than 4 KiB".into());
                }
                return Ok(None);
            }
        };
        let line = &buf[pos..e];
        let hex_end = line.iter().position(|c| !c.is_ascii_hexdigit()).unwrap_or(line.len());
        if hex_end == 0 {
            return Err(format!("chunk-size line does not start with hex digits: {}", crate::util::esc(line, 60)));
        }
        if hex_end > 15 {
            return Err("chunk size too large".into());
        }
        let rest = &line[hex_end..];
        if !rest.is_empty() && rest[0] != b';' && rest[0] != b' ' && rest[0] != b'\t' {
            return Err(format!("garbage after chunk size: {}", crate::util::esc(line, 60)));
        }
        let size = usize::from_str_radix(std::str::from_utf8(&line[..hex_end]).unwrap(), 16)
            .map_err(|e| format!("chunk size: {}", e))?;
        pos = e + 2;
        if size == 0 {
            // no trailers expected: the next two bytes must be CRLF
            if buf.len() < pos + 2 {
                return Ok(None);
            }
            if &buf[pos..pos + 2] != b"\r\n" {
                return Err(format!(
                    "last chunk not followed by CRLF (trailers are not expected): {}",
                    crate::util::esc(&buf[pos..(pos + 40).min(buf.len())], 60)
                ));
            }
            pos += 2;
            return Ok(Some((out, sizes, pos)));
        }
        if buf.len() < pos + size + 2 {
            return Ok(None);
        }
        out.extend_from_slice(&buf[pos..pos + size]);
        sizes.push(size);
        pos += size;
        if &buf[pos..pos + 2] != b"\r\n" {
            return Err("chunk data not followed by CRLF".into());
        }
        pos += 2;
    }
}

/// Parses one response from the start of `buf`.
/// `head_request`: the request this response answers used the HEAD method.
pub fn parse_response(buf: &[u8], head_request: bool) -> Parse {
    let (mut resp, head_len) = match parse_head(buf) {
        Err(e) => return Parse::Bad(e),
        Ok(None) => return Parse::Incomplete,
        Ok(Some(x)) => x,
    };
    let st = resp.status;
    // RFC 7230 3.3.3 rule 1
    if head_request || (100..200).contains(&st) || st == 204 || st == 304 {
        resp.framing = Framing::Bodiless;
        return Parse::Done(resp, head_len);
    }
    // rule 3: Transfer-Encoding
    let te: Vec<&str> = resp
        .headers
        .iter()
        .filter(|(n, _)| n.eq_ignore_ascii_case("transfer-encoding"))
        .map(|(_, v)| v.as_str())
        .collect();
    let cl: Vec<&str> = resp
        .headers
        .iter()
        .filter(|(n, _)| n.eq_ignore_ascii_case("content-length"))
        .map(|(_, v)| v.as_str())
        .collect();
    if !te.is_empty() {
        if !cl.is_empty() {
            return Parse::Bad("both Transfer-Encoding and Content-Length present".into());
        }
        let last = te.last().unwrap();
        let final_coding = last.rsplit(',').next().unwrap_or("").trim();
        if !final_coding.eq_ignore_ascii_case("chunked") {
            return Parse::UntilClose(resp, head_len);
        }
        return match decode_chunked(&buf[head_len..]) {
            Err(e) => Parse::Bad(format!("chunked body: {}", e)),
            Ok(None) => Parse::Incomplete,
            Ok(Some((body, sizes, used))) => {
                resp.body = body;
                resp.framing = Framing::Chunked(sizes);
                resp.wire_len = head_len + used;
                Parse::Done(resp, head_len + used)
            }
        };
    }
    // rule 4/5: Content-Length
    if !cl.is_empty() {
        if cl.len() > 1 {
            return Parse::Bad("more than one Content-Length".into());
        }
        let v = cl[0];
        if v.is_empty() || !v.bytes().all(|c| c.is_ascii_digit()) {
            return Parse::Bad(format!("invalid Content-Length value {:?}", v));
        }
        let n: usize = match v.parse() {
            Ok(n) => n,
            Err(_) => return Parse::Bad(format!("Content-Length overflow {:?}", v)),
        };
        if buf.len() < head_len + n {
            return Parse::Incomplete;
        }
        resp.body = buf[head_len..head_len + n].to_vec();
        resp.framing = Framing::ContentLength(n);
        resp.wire_len = head_len + n;
        return Parse::Done(resp, head_len + n);
    }
    // rule 7
    resp.framing = Framing::UntilClose;
    Parse::UntilClose(resp, head_len)
}

/// Parses a whole byte stream (connection already ended) into messages.
/// `heads[i]` tells whether the i-th *final* response answers a HEAD request.
/// Returns the messages and an error for the first thing that does not parse.
pub fn parse_stream(buf: &[u8], heads: &dyn Fn(usize) -> bool) -> (Vec<Resp>, Option<String>) {
    let mut out = Vec::new();
    let mut pos = 0;
    let mut finals = 0usize;
    while pos < buf.len() {
        match parse_response(&buf[pos..], heads(finals)) {
            Parse::Done(r, used) => {
                if !r.is_interim() {
                    finals += 1;
                }
                out.push(r);
                pos += used;
            }
            Parse::UntilClose(mut r, head_len) => {
                r.body = buf[pos + head_len..].to_vec();
                r.wire_len = buf.len() - pos;
                out.push(r);
                pos = buf.len();
            }
            Parse::Incomplete => {
                return (
                    out,
                    Some(format!(
                        "stream ends inside a message: {}",
                        crate::util::esc(&buf[pos..], 120)
                    )),
                );
            }
            Parse::Bad(e) => {
                return (out, Some(format!("at offset {}: {}", pos, e)));
            }
        }
    }
    (out, None)
}

/// Independent IMF-fixdate parser: returns seconds since the Unix epoch.
pub fn parse_imf_fixdate(s: &str) -> Option<i64> {
    // "Sun, 06 Nov 1994 08:49:37 GMT"
    let b = s.as_bytes();
    if b.len() != 29 {
        return None;
    }
    const DAYS: [&str; 7] = ["Thu", "Fri", "Sat", "Sun", "Mon", "Tue", "Wed"]; // 1970-01-01 was a Thursday
    const MONTHS: [&str; 12] = ["Jan", "Feb", "Mar", "Apr", "May", "Jun", "Jul", "Aug", "Sep", "Oct", "Nov", "Dec"];
    let dayname = &s[0..3];
    if &s[3..5] != ", " || b[7] != b' ' || b[11] != b' ' || b[16] != b' ' || b[19] != b':' || b[22] != b':' || &s[25..] != " GMT" {
        return None;
    }
    let num = |x: &str| -> Option<i64> {
        if x.bytes().all(|c| c.is_ascii_digit()) {
            x.parse().ok()
        } else {
            None
        }
    };
    let day = num(&s[5..7])?;
    let month = MONTHS.iter().position(|m| *m == &s[8..11])? as i64 + 1;
    let year = num(&s[12..16])?;
    let hh = num(&s[17..19])?;
    let mm = num(&s[20..22])?;
    let ss = num(&s[23..25])?;
    if !(1..=31).contains(&day) || hh > 23 || mm > 59 || ss > 60 || year < 1970 {
        return None;
    }
    // days from civil (Howard Hinnant's algorithm)
    let y = if month <= 2 { year - 1 } else { year };
    let era = if y >= 0 { y } else { y - 399 } / 400;
    let yoe = y - era * 400;
    let mp = (month + 9) % 12;
    let doy = (153 * mp + 2) / 5 + day - 1;
    let doe = yoe * 365 + yoe / 4 - yoe / 100 + doy;
    let days = era * 146097 + doe - 719468;
    // validate day-of-month by round trip of the weekday name
    let wd = DAYS[(days.rem_euclid(7)) as usize];
    if wd != dayname {
        return None;
    }
    // validate the day exists in the month
    let dim = match month {
        1 | 3 | 5 | 7 | 8 | 10 | 12 => 31,
        4 | 6 | 9 | 11 => 30,
        _ => {
            if (year % 4 == 0 && year % 100 != 0) || year % 400 == 0 {
                29
            } else {
                28
            }
        }
    };
    if day > dim {
        return None;
    }
    Some(days * 86400 + hh * 3600 + mm * 60 + ss)
}
