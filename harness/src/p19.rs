//! C19 – response header policy (pure engine): protected names, one Content-Type, auto
//! Date/Server, constructors declare the byte length of their data.

use crate::httpc::{self, Parse};
use crate::model::{admissible_codings, Coding};
use crate::report::Violation;
use crate::util::{Rng, J};
use crate::Ctx;
use std::io::Write;
use std::time::{SystemTime, UNIX_EPOCH};
use tiny_http::{HTTPVersion, Header, Response, StatusCode};

const NAMES: &[&str] = &[
    "Connection", "connection", "CONNECTION", "Trailer", "trailer", "TRAILER", "Transfer-Encoding",
    "transfer-encoding", "TRANSFER-ENCODING", "Upgrade", "upgrade", "UpGrade", "Content-Length",
    "content-length", "CONTENT-LENGTH", "Content-Type", "content-type", "CONTENT-TYPE", "Date", "date",
    "Server", "server", "SERVER", "X-A", "X-B", "x-a", "Set-Cookie", "set-cookie", "Cache-Control", "Vary",
    "Content-Encoding", "Content-Typo", "Connections", "Upgrade-Insecure-Requests", "Trailers", "X-Date",
];

#[derive(Clone, Debug)]
enum Ctor {
    FromString(String),
    FromData(Vec<u8>),
    FromFile(Vec<u8>),
    Empty(u16),
    New(Vec<u8>, bool), // data, declared?
}

#[derive(Clone, Debug)]
struct Case {
    ctor: Ctor,
    ctor_headers: Vec<(String, String)>, // only for Ctor::New: given to the constructor
    adds: Vec<(String, String, bool)>,   // (name, value, via with_header?)
    with_data: Option<(Vec<u8>, bool)>,  // replace the body afterwards (data, declared?)
    status: Option<u16>,
    boxed: bool,
    version: (u8, u8),
}

fn is_protected(n: &str) -> bool {
    ["connection", "trailer", "transfer-encoding", "upgrade"].iter().any(|p| n.eq_ignore_ascii_case(p))
}

fn gen_value(rng: &mut Rng, name: &str, body_len: usize) -> String {
    if name.eq_ignore_ascii_case("content-length") {
        return match rng.below(4) {
            0 => "abc".to_string(),
            1 => "".to_string(),
            2 => "-1".to_string(),
            _ => body_len.to_string(),
        };
    }
    if name.eq_ignore_ascii_case("content-type") {
        return rng.pick(&["text/html", "application/json", "text/plain; charset=UTF-8", "image/png", ""]).to_string();
    }
    if name.eq_ignore_ascii_case("date") {
        return rng.pick(&["Mon, 01 Jan 2001 00:00:00 GMT", "yesterday", "Sun, 06 Nov 1994 08:49:37 GMT"]).to_string();
    }
    if name.eq_ignore_ascii_case("server") {
        return rng.pick(&["mine/1.0", "", "x"]).to_string();
    }
    format!("v{}", rng.below(50))
}

fn gen_data(rng: &mut Rng) -> Vec<u8> {
    let n = *rng.pick(&[0usize, 1, 5, 100, 1000, 5000]);
    (0..n).map(|i| b'a' + ((i * 7 + n) % 26) as u8).collect()
}

fn gen_string(rng: &mut Rng) -> String {
    let parts = ["hello", "é", "日本", "𝄞", " ", "ß", "x", "\u{1F600}", "ASCII only"];
    let mut s = String::new();
    for _ in 0..rng.below(8) {
        s.push_str(rng.pick_s(&parts));
    }
    s
}

fn gen_case(rng: &mut Rng) -> Case {
    let ctor = match rng.below(5) {
        0 => Ctor::FromString(gen_string(rng)),
        1 => Ctor::FromData(gen_data(rng)),
        2 => Ctor::FromFile(gen_data(rng)),
        3 => Ctor::Empty(*rng.pick(&[200u16, 204, 404, 500])),
        _ => Ctor::New(gen_data(rng), rng.chance(2, 3)),
    };
    let with_data = if rng.chance(1, 4) { Some((gen_data(rng), rng.chance(3, 4))) } else { None };
    // final body length (needed for truthful Content-Length headers)
    let final_len = match (&with_data, &ctor) {
        (Some((d, _)), _) => d.len(),
        (None, Ctor::FromString(s)) => s.len(),
        (None, Ctor::FromData(d)) | (None, Ctor::FromFile(d)) | (None, Ctor::New(d, _)) => d.len(),
        (None, Ctor::Empty(_)) => 0,
    };
    let mut ctor_headers = Vec::new();
    if let Ctor::New(_, _) = ctor {
        for _ in 0..rng.below(6) {
            let n = *rng.pick(NAMES);
            ctor_headers.push((n.to_string(), gen_value(rng, n, final_len)));
        }
    }
    let mut adds = Vec::new();
    for _ in 0..rng.below(9) {
        let n = *rng.pick(NAMES);
        adds.push((n.to_string(), gen_value(rng, n, final_len), rng.chance(1, 2)));
    }
    Case {
        ctor,
        ctor_headers,
        adds,
        with_data,
        status: if rng.chance(1, 3) { Some(*rng.pick(&[200u16, 201, 404, 500, 301, 100, 101, 103, 199, 204, 304, 599])) } else { None },
        boxed: rng.chance(1, 3),
        version: *rng.pick(&[(1u8, 1u8), (1, 1), (1, 0)]),
    }
}

struct Built {
    out: Vec<u8>,
    getter_headers: Vec<(String, String)>,
    getter_len: Option<usize>,
    getter_status: u16,
    t_before: i64,
    t_after: i64,
    ctor_declared: Option<usize>,
}

fn hdr(n: &str, v: &str) -> Header {
    Header::from_bytes(n.as_bytes(), v.as_bytes()).unwrap()
}

fn build(c: &Case, tmpdir: &std::path::Path, case_seed: u64) -> Built {
    // all Response<R> types are unified through boxed() at the end; the constructor under test
    // still runs first and its declared length is captured from the getter before boxing.
    let mut resp: tiny_http::ResponseBox = match &c.ctor {
        Ctor::FromString(s) => Response::from_string(s.clone()).boxed(),
        Ctor::FromData(d) => Response::from_data(d.clone()).boxed(),
        Ctor::FromFile(d) => {
            let p = tmpdir.join(format!("c19-{:x}", case_seed));
            {
                let mut f = std::fs::File::create(&p).unwrap();
                f.write_all(d).unwrap();
            }
            let f = std::fs::File::open(&p).unwrap();
            let r = Response::from_file(f).boxed();
            let _ = std::fs::remove_file(&p);
            r
        }
        Ctor::Empty(s) => Response::empty(*s).boxed(),
        Ctor::New(d, declared) => Response::new(
            StatusCode(200),
            c.ctor_headers.iter().map(|(n, v)| hdr(n, v)).collect(),
            std::io::Cursor::new(d.clone()),
            if *declared { Some(d.len()) } else { None },
            None,
        )
        .boxed(),
    };
    let ctor_declared = resp.data_length();
    for (n, v, via_with) in &c.adds {
        if *via_with {
            resp = resp.with_header(hdr(n, v));
        } else {
            resp.add_header(hdr(n, v));
        }
    }
    if let Some(s) = c.status {
        resp = resp.with_status_code(s);
    }
    if let Some((d, declared)) = &c.with_data {
        let r2 = resp.with_data(std::io::Cursor::new(d.clone()), if *declared { Some(d.len()) } else { None });
        resp = r2.boxed();
    } else if c.boxed {
        resp = resp.boxed();
    }
    let getter_headers: Vec<(String, String)> = resp
        .headers()
        .iter()
        .map(|h| (h.field.as_str().as_str().to_string(), h.value.as_str().to_string()))
        .collect();
    let getter_len = resp.data_length();
    let getter_status = resp.status_code().0;
    let mut out = Vec::new();
    let t_before = SystemTime::now().duration_since(UNIX_EPOCH).unwrap().as_secs() as i64;
    resp.raw_print(&mut out, HTTPVersion(c.version.0, c.version.1), &[], false, None).unwrap();
    let t_after = SystemTime::now().duration_since(UNIX_EPOCH).unwrap().as_secs() as i64;
    Built { out, getter_headers, getter_len, getter_status, t_before, t_after, ctor_declared }
}

/// Reference policy: the application's header list as it must appear on the wire.
fn expected_app_headers(c: &Case) -> Vec<(String, String)> {
    let mut out: Vec<(String, String)> = Vec::new();
    let mut all: Vec<(String, String)> = Vec::new();
    if let Ctor::FromString(_) = c.ctor {
        all.push(("Content-Type".into(), "text/plain; charset=UTF-8".into()));
    }
    all.extend(c.ctor_headers.iter().cloned());
    all.extend(c.adds.iter().map(|(n, v, _)| (n.clone(), v.clone())));
    for (n, v) in all {
        if is_protected(&n) || n.eq_ignore_ascii_case("content-length") {
            continue;
        }
        if n.eq_ignore_ascii_case("content-type") {
            if let Some(e) = out.iter_mut().find(|(en, _)| en.eq_ignore_ascii_case("content-type")) {
                e.1 = v;
                continue;
            }
        }
        out.push((n, v));
    }
    out
}

fn check(ctx: &Ctx, c: &Case, case_seed: u64, tmpdir: &std::path::Path) {
    let rep = &ctx.rep;
    crate::util::current_case(case_seed, "pure");
    let b = match std::panic::catch_unwind(std::panic::AssertUnwindSafe(|| build(c, tmpdir, case_seed))) {
        Ok(b) => b,
        Err(_) => {
            let p = crate::env::panics_take();
            rep.eval(None);
            rep.violation(Violation {
                signature: "C19/build-or-print-panicked".into(),
                what: format!(
                    "building or printing the response panicked: {}",
                    p.last().map(|x| format!("{} at {}", x.message, x.location)).unwrap_or_default()
                ),
                detail: J::obj().set("case", J::s(format!("{:?}", c).chars().take(600).collect::<String>())),
                case_seed,
                mode: "pure".into(),
            });
            return;
        }
    };
    let exp = expected_app_headers(c);
    let ctor_name = match c.ctor {
        Ctor::FromString(_) => "from_string",
        Ctor::FromData(_) => "from_data",
        Ctor::FromFile(_) => "from_file",
        Ctor::Empty(_) => "empty",
        Ctor::New(_, _) => "new",
    };
    let mut names: Vec<String> = c
        .ctor_headers
        .iter()
        .map(|x| &x.0)
        .chain(c.adds.iter().map(|x| &x.0))
        .map(|n| n.to_ascii_lowercase())
        .collect();
    let prot_positions: Vec<usize> = names.iter().enumerate().filter(|(_, n)| is_protected(n)).map(|(i, _)| i).collect();
    names.sort();
    // class: which special names occur (how often, capped), how many ordinary ones
    let special = ["connection", "trailer", "transfer-encoding", "upgrade", "content-length", "content-type", "date", "server"];
    let mut cls: Vec<String> = special
        .iter()
        .map(|n| format!("{}", names.iter().filter(|x| x == n).count().min(2)))
        .collect();
    cls.push(format!("o{}", names.iter().filter(|x| !special.contains(&x.as_str())).count().min(3)));
    let sig = format!(
        "{}|{}|p{:?}|{}|{}",
        ctor_name,
        cls.join(""),
        prot_positions.first().map(|p| (*p).min(3)),
        c.with_data.is_some(),
        c.version.1
    );
    let nontrivial = !c.adds.is_empty() || !c.ctor_headers.is_empty();
    rep.eval(if nontrivial { Some(&sig) } else { None });
    rep.inc(&format!("ctor:{}", ctor_name));

    let fail = |signature: &str, what: String| {
        rep.violation(Violation {
            signature: signature.to_string(),
            what,
            detail: J::obj()
                .set("case", J::s(format!("{:?}", c).chars().take(1500).collect::<String>()))
                .set("expected_app_headers", J::A(exp.iter().map(|(n, v)| J::s(format!("{}: {}", n, v))).collect()))
                .set("output_head", J::bytes(&b.out[..b.out.len().min(1200)])),
            case_seed,
            mode: "pure".into(),
        });
    };

    // "a supplied Content-Length only sets the declared body length": probe on a response that is
    // not printed, so the supplied value need not be the true length (in the printed cases it
    // always is, which makes a supplied length that is ignored invisible there)
    {
        let m = 1 + (case_seed >> 8) as usize % 100_000;
        let name = ["Content-Length", "content-length", "CONTENT-LENGTH", "Content-length"][(case_seed >> 3) as usize % 4];
        let (mut r, base): (tiny_http::ResponseBox, &str) = match (case_seed >> 5) % 5 {
            0 => (Response::from_string("abc").boxed(), "from_string"),
            1 => (Response::from_data(vec![1u8, 2, 3, 4]).boxed(), "from_data"),
            2 => (Response::empty(200).boxed(), "empty"),
            3 => (Response::new(StatusCode(200), Vec::new(), std::io::Cursor::new(vec![0u8; 7]), Some(7), None).boxed(), "new(Some)"),
            _ => (Response::new(StatusCode(200), Vec::new(), std::io::Cursor::new(vec![0u8; 7]), None, None).boxed(), "new(None)"),
        };
        let before = r.data_length();
        let via = if case_seed & 4 == 0 {
            r.add_header(hdr(name, &m.to_string()));
            "add_header"
        } else {
            r = r.with_header(hdr(name, &m.to_string()));
            "with_header"
        };
        rep.inc("supplied_length_probes");
        if r.data_length() != Some(m) {
            fail(
                &format!("C19/supplied-length-not-set/{}", base),
                format!("{} declared {:?}; after {}({}: {}) data_length() = {:?}", base, before, via, name, m, r.data_length()),
            );
            return;
        }
        if r.headers().iter().any(|h| h.field.equiv("Content-Length")) {
            fail("C19/supplied-length-listed", format!("{}({}: {}) left a Content-Length field in headers()", via, name, m));
            return;
        }
        // a value that is not a number changes nothing
        r.add_header(hdr(name, "12x"));
        if r.data_length() != Some(m) {
            fail("C19/supplied-length-garbage", format!("Content-Length: 12x changed data_length() to {:?}", r.data_length()));
            return;
        }
    }

    // final body and declared length by the reference
    let (final_body, final_declared): (Vec<u8>, Option<usize>) = {
        let (body, decl_by_ctor): (Vec<u8>, Option<usize>) = match (&c.with_data, &c.ctor) {
            (Some((d, declared)), _) => (d.clone(), if *declared { Some(d.len()) } else { None }),
            (None, Ctor::FromString(s)) => (s.clone().into_bytes(), Some(s.len())),
            (None, Ctor::FromData(d)) | (None, Ctor::FromFile(d)) => (d.clone(), Some(d.len())),
            (None, Ctor::Empty(_)) => (Vec::new(), Some(0)),
            (None, Ctor::New(d, declared)) => (d.clone(), if *declared { Some(d.len()) } else { None }),
        };
        // a parsable supplied Content-Length (always the true length here) declares the length,
        // unless with_data replaced the body afterwards
        let supplied = c.with_data.is_none()
            && c.ctor_headers
                .iter()
                .map(|(n, v)| (n, v))
                .chain(c.adds.iter().map(|(n, v, _)| (n, v)))
                .any(|(n, v)| n.eq_ignore_ascii_case("content-length") && v.parse::<usize>().is_ok());
        (body.clone(), if supplied { Some(body.len()) } else { decl_by_ctor })
    };

    // constructor length
    let ctor_expect = match &c.ctor {
        Ctor::FromString(s) => Some(Some(s.len())),
        Ctor::FromData(d) | Ctor::FromFile(d) => Some(Some(d.len())),
        Ctor::Empty(_) => Some(Some(0)),
        Ctor::New(_, _) => None, // may be changed by constructor-supplied Content-Length
    };
    if let Some(e) = ctor_expect {
        if b.ctor_declared != e {
            fail(
                &format!("C19/ctor-length/{}", ctor_name),
                format!("{} declares {:?}, data has {:?} bytes", ctor_name, b.ctor_declared, e),
            );
            return;
        }
    }
    if b.getter_len != final_declared {
        fail("C19/data_length-getter", format!("data_length() = {:?}, reference {:?}", b.getter_len, final_declared));
        return;
    }
    if b.getter_headers != exp {
        fail("C19/headers-getter", format!("headers() = {:?}", b.getter_headers));
        return;
    }
    let exp_status = c.status.unwrap_or(match c.ctor {
        Ctor::Empty(s) => s,
        _ => 200,
    });
    if b.getter_status != exp_status {
        fail("C19/status-getter", format!("status_code() = {}, expected {}", b.getter_status, exp_status));
        return;
    }

    // wire
    let r = match httpc::parse_response(&b.out, false) {
        Parse::Done(r, used) if used == b.out.len() => r,
        other => {
            fail("C19/wire-unparsable", format!("output is not exactly one message: {:?}", other).chars().take(300).collect());
            return;
        }
    };
    let bodiless = (100..200).contains(&exp_status) || exp_status == 204 || exp_status == 304;
    if !bodiless && r.body != final_body {
        fail("C19/body", "body on the wire differs from the data".into());
        return;
    }
    let app_date = exp.iter().any(|(n, _)| n.eq_ignore_ascii_case("date"));
    let app_server = exp.iter().any(|(n, _)| n.eq_ignore_ascii_case("server"));
    let mut rest: Vec<(String, String)> = Vec::new();
    let mut n_date = 0;
    let mut n_server = 0;
    let mut framing: Vec<(String, String)> = Vec::new();
    for (n, v) in &r.headers {
        if n.eq_ignore_ascii_case("content-length") || n.eq_ignore_ascii_case("transfer-encoding") {
            framing.push((n.clone(), v.clone()));
        } else if n.eq_ignore_ascii_case("date") && !app_date {
            n_date += 1;
            match httpc::parse_imf_fixdate(v) {
                Some(t) if t >= b.t_before - 1 && t <= b.t_after + 1 => {}
                Some(t) => {
                    fail("C19/date-not-now", format!("Date {:?} = {} not within [{}, {}]", v, t, b.t_before - 1, b.t_after + 1));
                    return;
                }
                None => {
                    fail("C19/date-invalid", format!("Date {:?} is not an IMF-fixdate", v));
                    return;
                }
            }
        } else if n.eq_ignore_ascii_case("server") && !app_server {
            n_server += 1;
        } else {
            rest.push((n.clone(), v.clone()));
        }
    }
    if !app_date && n_date != 1 {
        fail("C19/date-count", format!("{} automatic Date headers", n_date));
        return;
    }
    if !app_server && n_server != 1 {
        fail("C19/server-count", format!("{} automatic Server headers", n_server));
        return;
    }
    for (n, _) in &rest {
        if is_protected(n) {
            fail(&format!("C19/protected-sent/{}", n.to_ascii_lowercase()), format!("application-supplied {} was sent", n));
            return;
        }
    }
    if rest.iter().filter(|(n, _)| n.eq_ignore_ascii_case("content-type")).count() > 1 {
        fail("C19/content-type-twice", "more than one Content-Type sent".into());
        return;
    }
    if rest != exp {
        fail("C19/app-headers", format!("application headers on the wire: {:?}", rest));
        return;
    }
    // exactly one framing header, per C05
    let adm = admissible_codings(c.version, exp_status, None, final_declared, 32768);
    let ok = framing.len() == 1
        && match (&adm[0], framing[0].0.to_ascii_lowercase().as_str()) {
            (Coding::Identity, "content-length") => framing[0].1 == final_body.len().to_string(),
            (Coding::Chunked, "transfer-encoding") => framing[0].1.eq_ignore_ascii_case("chunked"),
            _ => false,
        };
    if !ok {
        fail("C19/framing-header", format!("framing headers {:?}, reference coding {:?}", framing, adm));
        return;
    }
    if rep.want_sample() && case_seed % 257 == 0 {
        rep.sample(|| {
            J::obj()
                .set("ctor", J::s(ctor_name))
                .set("added", J::A(c.ctor_headers.iter().map(|(n, v)| (n, v)).chain(c.adds.iter().map(|(n, v, _)| (n, v))).map(|(n, v)| J::s(format!("{}: {}", n, v))).collect()))
                .set("wire_headers", J::A(r.headers.iter().map(|(n, v)| J::s(format!("{}: {}", n, v))).collect()))
        });
    }
}

pub fn run(ctx: &Ctx) {
    let tmpdir = std::env::current_exe().unwrap().parent().unwrap().join(format!("tmp-c19-{}", std::process::id()));
    let _ = std::fs::create_dir_all(&tmpdir);
    if let Some((cs, _, _)) = &ctx.replay {
        let mut rng = Rng::new(*cs);
        let c = gen_case(&mut rng);
        check(ctx, &c, *cs, &tmpdir);
    } else {
        let mut idx = 0u64;
        while ctx.time_left() {
            let cs = ctx.case_seed(idx);
            let mut rng = Rng::new(cs);
            let c = gen_case(&mut rng);
            check(ctx, &c, cs, &tmpdir);
            idx += 1;
        }
    }
    let _ = std::fs::remove_dir_all(&tmpdir);
}
