//! C08 – connections are isolated: none waits for another, however many arrive at once.
//! Bursts of N keep-alive connections against a real server whose worker pool is in a seeded
//! pre-state; every connection sends one request and stays open. A connection that gets no
//! response is confirmed by the kick the property names: closing *another* connection.

use crate::env::{CaseApp, Env};
use crate::net::{Client, Got};
use crate::report::Violation;
use crate::util::{now_ns, sleep_us, spawn_named, CalWindow, Rng, J};
use crate::Ctx;
use std::collections::HashMap;
use std::sync::{Arc, Barrier, Mutex};
use std::time::{Duration, Instant};
use tiny_http::verif as v;
use tiny_http::{Request, Response};

struct BurstApp {
    trial: u64,
    counts: Mutex<HashMap<usize, usize>>,
}

impl CaseApp for BurstApp {
    fn accepts(&self, _port: u16, rq: &Request) -> bool {
        rq.url().starts_with(&format!("/b/{:x}/", self.trial))
    }
    fn on_request(&self, rq: Request) {
        let idx: usize = rq.url().rsplit('/').next().and_then(|s| s.parse().ok()).unwrap_or(usize::MAX);
        *self.counts.lock().unwrap().entry(idx).or_insert(0) += 1;
        let _ = rq.respond(Response::from_string(format!("ok {}", idx)));
    }
}

#[derive(Clone, Debug)]
pub struct Trial {
    pub n: usize,
    /// 0 barrier, 1 staggered, 2 two waves
    pub pattern: usize,
    pub stagger_us: Vec<u64>,
    /// connections that are open and idle before the burst
    pub idle: usize,
    /// connections stalled in the middle of a request head before the burst
    pub midhead: usize,
    /// size of a previous burst that is closed just before (0 = none)
    pub prev_burst: usize,
    pub prev_gap_us: u64,
    /// sleep before the burst (thorough: > 5 s so that surplus workers are retiring)
    pub settle_ms: u64,
}

fn gen_trial(rng: &mut Rng, thorough: bool) -> Trial {
    let n = *rng.pick(&[2usize, 4, 5, 5, 6, 8, 16, 40]);
    let pattern = rng.below(3);
    let pre = rng.below(5);
    Trial {
        n,
        pattern,
        stagger_us: (0..n).map(|_| if pattern == 0 { 0 } else { rng.range(0, 300) as u64 }).collect(),
        idle: if pre == 1 { rng.range(1, 3) } else { 0 },
        midhead: if pre == 2 { rng.range(1, 3) } else { 0 },
        prev_burst: if pre == 3 || pre == 4 { *rng.pick(&[3usize, 5, 8, 20]) } else { 0 },
        prev_gap_us: rng.range(0, 3000) as u64,
        settle_ms: if thorough && pre == 4 && rng.chance(1, 6) { 5000 + rng.range(0, 300) as u64 } else { rng.range(0, 15) as u64 },
    }
}

fn one_request(addr: &crate::net::Addr, trial: u64, idx: usize, bound: Duration) -> (Option<Client>, Option<u64>) {
    let mut c = match Client::connect(addr) {
        Ok(c) => c,
        Err(_) => return (None, None),
    };
    c.send(format!("GET /b/{:x}/{} HTTP/1.1\r\nHost: h\r\n\r\n", trial, idx).as_bytes());
    let t0 = Instant::now();
    match c.await_finals(1, &|_| false, bound) {
        Got::Msg => (Some(c), Some(t0.elapsed().as_micros() as u64)),
        _ => (Some(c), None),
    }
}

pub fn run_trial(ctx: &Ctx, env: &Env, t: &Trial, cs: u64) {
    let rep = &ctx.rep;
    let trial = cs & 0xffff_ffff;
    let bound = Duration::from_millis(1500);
    let app = Arc::new(BurstApp { trial, counts: Mutex::new(HashMap::new()) });
    env.set_app(Some(app.clone()));
    let (d_new0, d_q0, _) = crate::env::dispatch_counters();

    // pre-state
    let mut pre_conns: Vec<Client> = Vec::new();
    for _ in 0..t.idle {
        if let Ok(c) = Client::connect(&env.addr) {
            pre_conns.push(c);
        }
    }
    for _ in 0..t.midhead {
        if let Ok(mut c) = Client::connect(&env.addr) {
            c.send(b"GET /b/stalled HTT");
            pre_conns.push(c);
        }
    }
    if t.prev_burst > 0 {
        let mut prev = Vec::new();
        let bar = Arc::new(Barrier::new(t.prev_burst));
        let mut hs = Vec::new();
        for i in 0..t.prev_burst {
            let (addr, bar) = (env.addr.clone(), bar.clone());
            hs.push(spawn_named("pb", move || {
                bar.wait();
                one_request(&addr, trial, 1000 + i, Duration::from_millis(1500)).0
            }));
        }
        for h in hs {
            if let Ok(Some(c)) = h.join() {
                prev.push(c);
            }
        }
        drop(prev); // close them all: workers go idle / start retiring
        sleep_us(t.prev_gap_us);
    }
    if t.settle_ms > 0 {
        std::thread::sleep(Duration::from_millis(t.settle_ms));
    }

    // the burst
    let cal = CalWindow::open();
    let t_burst = now_ns();
    let barrier = Arc::new(Barrier::new(t.n));
    let mut hs = Vec::new();
    for i in 0..t.n {
        let (addr, barrier) = (env.addr.clone(), barrier.clone());
        let stagger = t.stagger_us[i];
        let second_wave = t.pattern == 2 && i >= t.n / 2;
        hs.push(spawn_named(&format!("b{}", i), move || {
            barrier.wait();
            if second_wave {
                sleep_us(400);
            }
            if stagger > 0 {
                sleep_us(stagger);
            }
            one_request(&addr, trial, i, bound)
        }));
    }
    let mut conns: Vec<(Option<Client>, Option<u64>)> = Vec::new();
    for h in hs {
        conns.push(h.join().unwrap_or((None, None)));
    }
    let stalled: Vec<usize> = conns.iter().enumerate().filter(|(_, c)| c.0.is_some() && c.1.is_none()).map(|(i, _)| i).collect();
    let failed_connect = conns.iter().filter(|c| c.0.is_none()).count();
    let (d_new1, d_q1, qmax) = crate::env::dispatch_counters();
    let queued = d_q1 - d_q0;
    rep.counts.add("tasks_given_new_thread", d_new1 - d_new0);
    rep.counts.add("tasks_queued_for_idle_worker", queued);
    if queued > 0 {
        rep.inc("trials_with_queued_dispatch");
    }
    rep.counts.max("max_task_queue_len", qmax as u64);
    let pre_label = if t.idle > 0 { "idle-conns" } else if t.midhead > 0 { "mid-head" } else if t.prev_burst > 0 { if t.settle_ms >= 5000 { "after-burst+retire" } else { "after-burst" } } else { "fresh-idle" };
    rep.inc(&format!("pre:{}", pre_label));
    let sig = format!("{}|N{}|p{}|q{}", pre_label, t.n, t.pattern, (queued > 0) as u8);
    let max_lat = conns.iter().filter_map(|c| c.1).max().unwrap_or(0);
    rep.counts.max("max_response_latency_us", max_lat);

    let lat_json = J::A(conns.iter().map(|c| c.1.map(|x| J::I(x as i64)).unwrap_or(J::Null)).collect());
    let detail = |extra: J| {
        J::obj()
            .set("trial", J::s(format!("{:?}", t)))
            .set("latencies_us", lat_json.clone())
            .set("tasks_queued_this_trial", J::I(queued as i64))
            .set("t_burst_us", J::I((t_burst / 1000) as i64))
            .set("extra", extra)
    };

    if failed_connect > 0 {
        rep.inconclusive("connect failed during burst");
    } else if stalled.is_empty() {
        // exactly one worker per connection: each request handed out once
        let counts = app.counts.lock().unwrap().clone();
        let dup = (0..t.n).find(|i| counts.get(i).copied().unwrap_or(0) != 1);
        rep.eval(Some(&sig));
        if let Some(i) = dup {
            rep.violation(Violation {
                signature: "C08/request-count".into(),
                what: format!("request of connection {} was handed to the application {} times", i, counts.get(&i).copied().unwrap_or(0)),
                detail: detail(J::Null),
                case_seed: cs,
                mode: "native".into(),
            });
        } else if rep.want_sample() && cs % 9 == 0 {
            rep.sample(|| detail(J::Null));
        }
    } else {
        // stall oracle: condition 2 (scheduled?) then condition 3 (kick: close another connection)
        if !cal.healthy(Duration::from_millis(150)) {
            rep.inconclusive("burst stalled but calibrator unhealthy");
        } else {
            let answered: Vec<usize> = conns.iter().enumerate().filter(|(_, c)| c.1.is_some()).map(|(i, _)| i).collect();
            let mut witness: Option<(usize, usize, u64)> = None;
            let mut remaining = stalled.clone();
            let mut kicks = Vec::new();
            for a in answered {
                if remaining.is_empty() {
                    break;
                }
                conns[a].0 = None; // close an already answered connection
                kicks.push(a);
                let t0 = Instant::now();
                let mut woke = None;
                while t0.elapsed() < Duration::from_millis(150) && woke.is_none() {
                    for s in &remaining {
                        if let Some(c) = conns[*s].0.as_mut() {
                            if let Got::Msg = c.await_finals(1, &|_| false, Duration::from_millis(2)) {
                                woke = Some(*s);
                                break;
                            }
                        }
                    }
                }
                if let Some(s) = woke {
                    if witness.is_none() {
                        witness = Some((s, a, t0.elapsed().as_micros() as u64));
                    }
                    remaining.retain(|x| *x != s);
                }
            }
            rep.eval(Some(&sig));
            if let Some((s, a, us)) = witness {
                rep.violation(Violation {
                    signature: "C08/served-only-after-other-connection-closed".into(),
                    what: format!(
                        "connection {} of a burst of {} got no response for 1.5 s while all stayed open; it was answered {} us after connection {} was closed",
                        s, t.n, us, a
                    ),
                    detail: detail(J::obj().set("stalled", J::A(stalled.iter().map(|x| J::u(*x)).collect())).set("closed_in_order", J::A(kicks.iter().map(|x| J::u(*x)).collect()))),
                    case_seed: cs,
                    mode: "native".into(),
                });
            } else {
                // nothing to attribute the stall to: is the server alive at all?
                drop(std::mem::take(&mut conns));
                if env.control(Duration::from_millis(1000)).is_some() {
                    rep.violation(Violation {
                        signature: "C08/no-response-even-after-others-closed".into(),
                        what: format!("{} connection(s) of a burst of {} got no response although the server still serves new connections", stalled.len(), t.n),
                        detail: detail(J::Null),
                        case_seed: cs,
                        mode: "native".into(),
                    });
                } else {
                    rep.inconclusive("burst stalled, kick did not help, control connection not served");
                }
            }
        }
    }
    drop(conns);
    drop(pre_conns);
    env.set_app(None);
}

pub fn run(ctx: &Ctx) {
    crate::env::install_fp_hook();
    if let Some((cs, _, repeat)) = &ctx.replay {
        crate::env::fp_configure(*cs, &[v::FP_POOL_SPAWN, v::FP_POOL_WORKER_LOOP, v::FP_ACCEPTED], 200, 200);
        for _ in 0..(*repeat).max(1) {
            let env = Env::new(false, 2);
            let mut rng = Rng::new(*cs);
            let t = gen_trial(&mut rng, ctx.thorough);
            run_trial(ctx, &env, &t, *cs);
        }
        return;
    }
    let mut rng = Rng::new(ctx.seed ^ ((ctx.shard as u64) << 32) ^ 0xC08);
    let pert = crate::env::perturb_setup(&mut rng, ctx.shard, true);
    let permille = *rng.pick(&[0u32, 0, 100, 300]);
    crate::env::fp_configure(ctx.seed ^ ctx.shard as u64, &[v::FP_POOL_SPAWN, v::FP_POOL_WORKER_LOOP, v::FP_ACCEPTED], permille, 200);
    let mut env = Env::new(false, 2);
    let mut reuse_left = rng.range(0, 20);
    let mut idx = 0u64;
    while ctx.time_left() {
        if reuse_left == 0 {
            env = Env::new(false, 2);
            reuse_left = rng.range(0, 20);
        } else {
            reuse_left -= 1;
        }
        let cs = ctx.case_seed(idx);
        let mut r = Rng::new(cs);
        let t = gen_trial(&mut r, ctx.thorough);
        run_trial(ctx, &env, &t, cs);
        idx += 1;
        if ctx.rep.n_violations() >= 5 {
            break;
        }
    }
    ctx.rep.set_extra("perturbation", J::s(format!("{} fp_delay_permille={}", pert.desc, permille)));
    ctx.rep.set_extra("failpoints", J::O(crate::env::fp_hits().into_iter().map(|(k, v)| (k, J::I(v as i64))).collect()));
}
