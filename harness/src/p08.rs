//! C08 – connections are isolated: none waits for another, however many arrive at once.
//! Bursts of N keep-alive connections against a real server whose worker pool is in a seeded
//! pre-state; every connection sends one request and stays open. A connection that gets no
//! response is confirmed by the kick the property names: closing *another* connection.

use crate::env::{CaseApp, Env};
use crate::net::{Client, Got};
use crate::report::Violation;
use crate::util::{now_ns, sleep_us, spawn_named, CalWindow, Rng, J};
use crate::Ctx;
use std::collections::HashMap;
use std::sync::{Arc, Barrier, Mutex};
use std::time::{Duration, Instant};
use tiny_http::verif as v;
use tiny_http::{Request, Response};

struct BurstApp {
    trial: u64,
    counts: Mutex<HashMap<usize, usize>>,
}

impl CaseApp for BurstApp {
    fn accepts(&self, _port: u16, rq: &Request) -> bool {
        rq.url().starts_with(&format!("/b/{:x}/", self.trial))
    }
    fn on_request(&self, rq: Request) {
        let idx: usize = rq.url().rsplit('/').next().and_then(|s| s.parse().ok()).unwrap_or(usize::MAX);
        *self.counts.lock().unwrap().entry(idx).or_insert(0) += 1;
        let _ = rq.respond(Response::from_string(format!("ok {}", idx)));
    }
}

#[derive(Clone, Debug)]
pub struct Trial {
    pub n: usize,
    /// 0 barrier, 1 staggered, 2 two waves
    pub pattern: usize,
    pub stagger_us: Vec<u64>,
    /// connections that are open and idle before the burst
    pub idle: usize,
    /// connections stalled in the middle of a request head before the burst
    pub midhead: usize,
    /// size of a previous burst that is closed just before (0 = none)
    pub prev_burst: usize,
    pub prev_gap_us: u64,
    /// sleep before the burst (thorough: > 5 s so that surplus workers are retiring)
    pub settle_ms: u64,
}

/// Long scenario: a burst grows the pool, the surplus workers retire after their idle period,
/// the remaining workers are then occupied by open connections and a new burst arrives.
fn gen_retire_trial(rng: &mut Rng) -> Trial {
    let n = *rng.pick(&[1usize, 2, 5, 8]);
    Trial {
        n,
        pattern: rng.below(3),
        stagger_us: (0..n).map(|_| rng.range(0, 300) as u64).collect(),
        idle: *rng.pick(&[0usize, 3, 4, 4]),
        midhead: 0,
        prev_burst: *rng.pick(&[6usize, 9, 20]),
        prev_gap_us: 0,
        settle_ms: 5200 + rng.range(0, 600) as u64,
    }
}

fn gen_trial(rng: &mut Rng, thorough: bool) -> Trial {
    let n = *rng.pick(&[2usize, 4, 5, 5, 6, 8, 16, 40]);
    let pattern = rng.below(3);
    let pre = rng.below(5);
    Trial {
        n,
        pattern,
        stagger_us: (0..n).map(|_| if pattern == 0 { 0 } else { rng.range(0, 300) as u64 }).collect(),
        idle: if pre == 1 { rng.range(1, 3) } else { 0 },
        midhead: if pre == 2 { rng.range(1, 3) } else { 0 },
        prev_burst: if pre == 3 || pre == 4 { *rng.pick(&[3usize, 5, 8, 20]) } else { 0 },
        prev_gap_us: rng.range(0, 3000) as u64,
        settle_ms: if thorough && pre == 4 && rng.chance(1, 6) { 5000 + rng.range(0, 300) as u64 } else { rng.range(0, 15) as u64 },
    }
}

fn one_request(addr: &crate::net::Addr, trial: u64, idx: usize, bound: Duration) -> (Option<Client>, Option<u64>) {
    let mut c = match Client::connect(addr) {
        Ok(c) => c,
        Err(_) => return (None, None),
    };
    c.send(format!("GET /b/{:x}/{} HTTP/1.1\r\nHost: h\r\n\r\n", trial, idx).as_bytes());
    let t0 = Instant::now();
    match c.await_finals(1, &|_| false, bound) {
        Got::Msg => (Some(c), Some(t0.elapsed().as_micros() as u64)),
        _ => (Some(c), None),
    }
}

pub fn run_trial(ctx: &Ctx, env: &Env, t: &Trial, cs: u64) {
    let rep = &ctx.rep;
    let trial = cs & 0xffff_ffff;
    let bound = Duration::from_millis(1500);
    let app = Arc::new(BurstApp { trial, counts: Mutex::new(HashMap::new()) });
    env.set_app(Some(app.clone()));
    let (d_new0, d_q0, _) = crate::env::dispatch_counters();

    // pre-state
    let mut pre_conns: Vec<Client> = Vec::new();
    let occupy_after_settle = t.settle_ms >= 5000;
    for _ in 0..(if occupy_after_settle { 0 } else { t.idle }) {
        if let Ok(c) = Client::connect(&env.addr) {
            pre_conns.push(c);
        }
    }
    for _ in 0..t.midhead {
        if let Ok(mut c) = Client::connect(&env.addr) {
            c.send(b"GET /b/stalled HTT");
            pre_conns.push(c);
        }
    }
    if t.prev_burst > 0 {
        let mut prev = Vec::new();
        let bar = Arc::new(Barrier::new(t.prev_burst));
        let mut hs = Vec::new();
        for i in 0..t.prev_burst {
            let (addr, bar) = (env.addr.clone(), bar.clone());
            hs.push(spawn_named("pb", move || {
                bar.wait();
                one_request(&addr, trial, 1000 + i, Duration::from_millis(1500)).0
            }));
        }
        for h in hs {
            if let Ok(Some(c)) = h.join() {
                prev.push(c);
            }
        }
        drop(prev); // close them all: workers go idle / start retiring
        sleep_us(t.prev_gap_us);
    }
    if t.settle_ms > 0 {
        std::thread::sleep(Duration::from_millis(t.settle_ms));
    }
    if occupy_after_settle {
        // occupy the workers that are left after the retirement with open, idle connections
        for _ in 0..t.idle {
            if let Ok(c) = Client::connect(&env.addr) {
                pre_conns.push(c);
            }
            sleep_us(2000);
        }
        std::thread::sleep(Duration::from_millis(20));
    }

    // the burst
    let cal = CalWindow::open();
    let t_burst = now_ns();
    let barrier = Arc::new(Barrier::new(t.n));
    let mut hs = Vec::new();
    for i in 0..t.n {
        let (addr, barrier) = (env.addr.clone(), barrier.clone());
        let stagger = t.stagger_us[i];
        let second_wave = t.pattern == 2 && i >= t.n / 2;
        hs.push(spawn_named(&format!("b{}", i), move || {
            barrier.wait();
            if second_wave {
                sleep_us(400);
            }
            if stagger > 0 {
                sleep_us(stagger);
            }
            one_request(&addr, trial, i, bound)
        }));
    }
    let mut conns: Vec<(Option<Client>, Option<u64>)> = Vec::new();
    for h in hs {
        conns.push(h.join().unwrap_or((None, None)));
    }
    let stalled: Vec<usize> = conns.iter().enumerate().filter(|(_, c)| c.0.is_some() && c.1.is_none()).map(|(i, _)| i).collect();
    let failed_connect = conns.iter().filter(|c| c.0.is_none()).count();
    let (d_new1, d_q1, qmax) = crate::env::dispatch_counters();
    let queued = d_q1 - d_q0;
    rep.counts.add("tasks_given_new_thread", d_new1 - d_new0);
    rep.counts.add("tasks_queued_for_idle_worker", queued);
    if queued > 0 {
        rep.inc("trials_with_queued_dispatch");
    }
    rep.counts.max("max_task_queue_len", qmax as u64);
    let pre_label = if t.idle > 0 { "idle-conns" } else if t.midhead > 0 { "mid-head" } else if t.prev_burst > 0 { if t.settle_ms >= 5000 { "after-burst+retire" } else { "after-burst" } } else { "fresh-idle" };
    rep.inc(&format!("pre:{}", pre_label));
    let sig = format!("{}|N{}|p{}|q{}", pre_label, t.n, t.pattern, (queued > 0) as u8);
    let max_lat = conns.iter().filter_map(|c| c.1).max().unwrap_or(0);
    rep.counts.max("max_response_latency_us", max_lat);

    let lat_json = J::A(conns.iter().map(|c| c.1.map(|x| J::I(x as i64)).unwrap_or(J::Null)).collect());
    let detail = |extra: J| {
        J::obj()
            .set("trial", J::s(format!("{:?}", t)))
            .set("latencies_us", lat_json.clone())
            .set("tasks_queued_this_trial", J::I(queued as i64))
            .set("t_burst_us", J::I((t_burst / 1000) as i64))
            .set("extra", extra)
    };

    if failed_connect > 0 {
        rep.inconclusive("connect failed during burst");
    } else if stalled.is_empty() {
        // exactly one worker per connection: each request handed out once
        let counts = app.counts.lock().unwrap().clone();
        let dup = (0..t.n).find(|i| counts.get(i).copied().unwrap_or(0) != 1);
        rep.eval(Some(&sig));
        if let Some(i) = dup {
            rep.violation(Violation {
                signature: "C08/request-count".into(),
                what: format!("request of connection {} was handed to the application {} times", i, counts.get(&i).copied().unwrap_or(0)),
                detail: detail(J::Null),
                case_seed: cs,
                mode: "native".into(),
            });
        } else if rep.want_sample() && cs % 9 == 0 {
            rep.sample(|| detail(J::Null));
        }
    } else {
        // stall oracle: condition 2 (scheduled?) then condition 3 (kick: close another connection)
        if !cal.healthy(Duration::from_millis(150)) {
            rep.inconclusive("burst stalled but calibrator unhealthy");
        } else {
            let answered: Vec<usize> = conns.iter().enumerate().filter(|(_, c)| c.1.is_some()).map(|(i, _)| i).collect();
            let mut witness: Option<(usize, usize, u64)> = None;
            let mut remaining = stalled.clone();
            let mut kicks = Vec::new();
            for a in answered {
                if remaining.is_empty() {
                    break;
                }
                conns[a].0 = None; // close an already answered connection
                kicks.push(a);
                let t0 = Instant::now();
                let mut woke = None;
                while t0.elapsed() < Duration::from_millis(150) && woke.is_none() {
                    for s in &remaining {
                        if let Some(c) = conns[*s].0.as_mut() {
                            if let Got::Msg = c.await_finals(1, &|_| false, Duration::from_millis(2)) {
                                woke = Some(*s);
                                break;
                            }
                        }
                    }
                }
                if let Some(s) = woke {
                    if witness.is_none() {
                        witness = Some((s, a, t0.elapsed().as_micros() as u64));
                    }
                    remaining.retain(|x| *x != s);
                }
            }
            // the connections of the pre-state (open and silent, or stalled inside a head) are
            // "other connections" too: close them one by one
            let mut pre_kicked = 0usize;
            while witness.is_none() && !remaining.is_empty() && !pre_conns.is_empty() {
                drop(pre_conns.remove(0));
                pre_kicked += 1;
                let t0 = Instant::now();
                let mut woke = None;
                while t0.elapsed() < Duration::from_millis(150) && woke.is_none() {
                    for s in &remaining {
                        if let Some(c) = conns[*s].0.as_mut() {
                            if let Got::Msg = c.await_finals(1, &|_| false, Duration::from_millis(2)) {
                                woke = Some(*s);
                                break;
                            }
                        }
                    }
                }
                if let Some(s) = woke {
                    witness = Some((s, usize::MAX - pre_kicked, t0.elapsed().as_micros() as u64));
                    remaining.retain(|x| *x != s);
                }
            }
            rep.eval(Some(&sig));
            if let Some((s, a, us)) = witness {
                rep.violation(Violation {
                    signature: "C08/served-only-after-other-connection-closed".into(),
                    what: if a > usize::MAX / 2 {
                        format!(
                            "connection {} of a burst of {} got no response for 1.5 s while all stayed open; it was answered {} us after a connection that had been open (silent or stalled inside its head) since before the burst was closed",
                            s, t.n, us
                        )
                    } else {
                        format!(
                            "connection {} of a burst of {} got no response for 1.5 s while all stayed open; it was answered {} us after connection {} was closed",
                            s, t.n, us, a
                        )
                    },
                    detail: detail(J::obj().set("stalled", J::A(stalled.iter().map(|x| J::u(*x)).collect())).set("closed_in_order", J::A(kicks.iter().map(|x| J::u(*x)).collect()))),
                    case_seed: cs,
                    mode: if t.settle_ms >= 5000 { "retire".into() } else { "native".into() },
                });
            } else {
                // nothing to attribute the stall to: is the server alive at all?
                drop(std::mem::take(&mut conns));
                if env.control(Duration::from_millis(1000)).is_some() {
                    rep.violation(Violation {
                        signature: "C08/no-response-even-after-others-closed".into(),
                        what: format!("{} connection(s) of a burst of {} got no response although the server still serves new connections", stalled.len(), t.n),
                        detail: detail(J::Null),
                        case_seed: cs,
                        mode: "native".into(),
                    });
                } else {
                    rep.inconclusive("burst stalled, kick did not help, control connection not served");
                }
            }
        }
    }
    drop(conns);
    drop(pre_conns);
    env.set_app(None);
}

/// Workload "retire race": a new connection is dispatched at the very moment a surplus worker's
/// idle period expires, while every other worker is occupied. Many servers in parallel, because
/// one attempt takes the 5 s of the idle period and the window is only microseconds wide.
fn run_retire_race(ctx: &Ctx) {
    let rep = &ctx.rep;
    // The window (surplus worker's timer fired, worker not yet back under the pool mutex) is a few
    // microseconds on an idle machine and grows with scheduling latency; the measured hit rate of
    // this native workload against a seeded "retire without re-checking the queue" change was
    // 0.1-3 % per attempt depending on machine load, so it is a lottery ticket. The deciding
    // engine for this race is the Miri scenario `pool_retire_race` (27 of 64 seeds).
    let nservers = 48usize;
    let attempts_per_server: usize = (((ctx.budget_ms.saturating_sub(4500)) / 5100) as usize).clamp(1, 40);
    let cal = CalWindow::open();
    let mut hs = Vec::new();
    for si in 0..nservers {
        let seed = ctx.case_seed(si as u64);
        hs.push(spawn_named(&format!("rr{}", si), move || {
            let mut rng = Rng::new(seed);
            let mut out: Vec<(u64, Option<u64>, bool)> = Vec::new(); // (jitter, latency, answered after kick)
            let server = match tiny_http::Server::http("127.0.0.1:0") {
                Ok(s) => Arc::new(s),
                Err(_) => return out,
            };
            let addr = crate::net::Addr::Tcp(server.server_addr().to_ip().unwrap());
            let stop = Arc::new(std::sync::atomic::AtomicBool::new(false));
            let (s2, st2) = (server.clone(), stop.clone());
            let app = spawn_named("rrapp", move || {
                while !st2.load(std::sync::atomic::Ordering::SeqCst) {
                    if let Ok(Some(rq)) = s2.recv_timeout(Duration::from_millis(50)) {
                        let _ = rq.respond(Response::from_string("ok"));
                    }
                }
            });
            let roundtrip = |c: &mut Client, n: usize, tmo: Duration| -> bool {
                c.send(b"GET /rr HTTP/1.1\r\nHost: h\r\n\r\n");
                matches!(c.await_finals(n, &|_| false, tmo), Got::Msg)
            };
            // four pinned keep-alive connections occupy four workers, a fifth one the surplus worker
            let mut pins: Vec<(Client, usize)> = Vec::new();
            for _ in 0..4 {
                if let Ok(mut c) = Client::connect(&addr) {
                    if roundtrip(&mut c, 1, Duration::from_millis(3000)) {
                        pins.push((c, 1));
                    }
                }
            }
            let mut floating = match Client::connect(&addr) {
                Ok(mut c) => {
                    if !roundtrip(&mut c, 1, Duration::from_millis(3000)) {
                        return out;
                    }
                    Some(c)
                }
                Err(_) => return out,
            };
            if pins.len() != 4 {
                return out;
            }
            // spread the servers over the idle period so that the precisely timed connects of
            // different servers do not compete for the CPUs
            std::thread::sleep(Duration::from_micros(rng.range(0, 4_500_000) as u64));
            for _ in 0..attempts_per_server {
                // the surplus worker goes idle now; its timed wait expires 5 s later
                let t0 = Instant::now();
                drop(floating.take());
                let jitter_us = rng.range(0, 450) as u64;
                let target = Duration::from_micros(5_000_000 + jitter_us);
                while t0.elapsed() + Duration::from_millis(2) < target {
                    std::thread::sleep(Duration::from_millis(1));
                }
                while t0.elapsed() < target {
                    std::hint::spin_loop();
                }
                let mut c = match Client::connect(&addr) {
                    Ok(c) => c,
                    Err(_) => break,
                };
                let t1 = Instant::now();
                if roundtrip(&mut c, 1, Duration::from_millis(1500)) {
                    out.push((jitter_us, Some(t1.elapsed().as_micros() as u64), false));
                    floating = Some(c);
                } else {
                    // kick: close one of the pinned connections
                    let (p, _) = pins.pop().unwrap();
                    drop(p);
                    let after = matches!(c.await_finals(1, &|_| false, Duration::from_millis(300)), Got::Msg);
                    out.push((jitter_us, None, after));
                    // restore the set-up
                    if let Ok(mut p2) = Client::connect(&addr) {
                        if roundtrip(&mut p2, 1, Duration::from_millis(3000)) {
                            pins.push((p2, 1));
                        }
                    }
                    floating = Some(c);
                    if pins.len() != 4 {
                        break;
                    }
                }
            }
            stop.store(true, std::sync::atomic::Ordering::SeqCst);
            let _ = app.join();
            out
        }));
    }
    let mut attempts = 0u64;
    let mut stalled: Vec<(usize, u64, bool)> = Vec::new();
    for (si, h) in hs.into_iter().enumerate() {
        if let Ok(v) = h.join() {
            for (j, lat, after) in v {
                attempts += 1;
                rep.eval(Some(&format!("retire-race|j{}", j / 50)));
                match lat {
                    Some(l) => rep.counts.max("retire_race_max_latency_us", l),
                    None => stalled.push((si, j, after)),
                }
            }
        }
    }
    rep.counts.add("retire_race_attempts", attempts);
    rep.inc("workload:retire-race");
    if !stalled.is_empty() {
        if !cal.healthy(Duration::from_millis(200)) {
            rep.inconclusive("retire race: stalled connection but calibrator unhealthy");
        } else if let Some((si, j, _)) = stalled.iter().find(|x| x.2) {
            rep.violation(Violation {
                signature: "C08/served-only-after-other-connection-closed".into(),
                what: format!(
                    "a connection opened 5 s (+{} us) after a surplus worker went idle, while the four other workers were occupied, got no response for 1.5 s; it was answered after one of the other connections was closed",
                    *j as i64
                ),
                detail: J::obj()
                    .set("server_index", J::u(*si))
                    .set("attempts", J::I(attempts as i64))
                    .set("stalled", J::A(stalled.iter().map(|x| J::s(format!("server {} jitter {} us answered-after-kick {}", x.0, x.1, x.2))).collect())),
                case_seed: ctx.case_seed(*si as u64),
                mode: "retire-race".into(),
            });
        } else {
            rep.inconclusive("retire race: stalled connection, kick did not help");
        }
    } else if rep.want_sample() {
        rep.sample(|| J::obj().set("workload", J::s("retire-race")).set("servers", J::u(nservers)).set("attempts", J::I(attempts as i64)));
    }
}

pub fn run(ctx: &Ctx) {
    crate::env::install_fp_hook();
    if ctx.replay.as_ref().map(|r| r.1 == "retire-race").unwrap_or(false) || (ctx.replay.is_none() && ctx.nshards >= 8 && ctx.shard == ctx.nshards - 3) {
        run_retire_race(ctx);
        return;
    }
    if let Some((cs, _, repeat)) = &ctx.replay {
        crate::env::fp_configure(*cs, &[v::FP_POOL_SPAWN, v::FP_POOL_WORKER_LOOP, v::FP_ACCEPTED], 200, 200);
        for _ in 0..(*repeat).max(1) {
            let env = Env::new(false, 2);
            let mut rng = Rng::new(*cs);
            let t = if ctx.replay.as_ref().map(|r| r.1 == "retire").unwrap_or(false) { gen_retire_trial(&mut rng) } else { gen_trial(&mut rng, ctx.thorough) };
            run_trial(ctx, &env, &t, *cs);
        }
        return;
    }
    let mut rng = Rng::new(ctx.seed ^ ((ctx.shard as u64) << 32) ^ 0xC08);
    let pert = crate::env::perturb_setup(&mut rng, ctx.shard, true);
    let permille = *rng.pick(&[0u32, 0, 100, 300]);
    crate::env::fp_configure(ctx.seed ^ ctx.shard as u64, &[v::FP_POOL_SPAWN, v::FP_POOL_WORKER_LOOP, v::FP_ACCEPTED], permille, 200);
    let mut env = Env::new(false, 2);
    let mut reuse_left = rng.range(0, 20);
    let mut idx = 0u64;
    while ctx.time_left() {
        if reuse_left == 0 {
            env = Env::new(false, 2);
            reuse_left = rng.range(0, 20);
        } else {
            reuse_left -= 1;
        }
        let cs = ctx.case_seed(idx);
        let mut r = Rng::new(cs);
        // the last two shards run the long retirement scenario on a fresh server each time
        let t = if ctx.shard >= ctx.nshards.saturating_sub(2) && ctx.nshards >= 4 {
            env = Env::new(false, 2);
            gen_retire_trial(&mut r)
        } else {
            gen_trial(&mut r, ctx.thorough)
        };
        run_trial(ctx, &env, &t, cs);
        idx += 1;
        if ctx.rep.n_violations() >= 5 {
            break;
        }
    }
    ctx.rep.set_extra("perturbation", J::s(format!("{} fp_delay_permille={}", pert.desc, permille)));
    ctx.rep.set_extra("failpoints", J::O(crate::env::fp_hits().into_iter().map(|(k, v)| (k, J::I(v as i64))).collect()));
}
