use crate::Ctx;

pub fn run(_ctx: &Ctx) {
    unimplemented!()
}
