//! C07 – each complete request is delivered exactly once; no lost wake-ups.
//! Real server, P client connections, C receiver threads mixing recv / recv_timeout /
//! try_recv / incoming_requests; the queue's shadow counters (hook H2) are sampled under the
//! queue's own mutex. A stuck state (request queued, a receiver blocked in recv, no progress)
//! is confirmed by the kick the property names: one `unblock()`.

use crate::alloc::lib;
use crate::env::Env;
use crate::net::Client;
use crate::report::Violation;
use crate::util::{now_ns, sleep_us, spawn_named, CalWindow, Rng, J};
use crate::Ctx;
use std::collections::HashMap;
use std::sync::atomic::{AtomicBool, AtomicUsize, Ordering};
use std::sync::{Arc, Mutex};
use std::time::{Duration, Instant};
use tiny_http::{Response, Server};

#[derive(Clone, Debug, PartialEq)]
pub enum Op {
    Recv,
    IterNext,
    RecvTimeout(u64), // microseconds
    TryRecv,
}

#[derive(Clone, Debug, PartialEq)]
pub enum Leave {
    /// call again at once
    Loop,
    /// do not look at the queue for this long after an empty-handed return
    SleepMs(u64),
    /// stop receiving
    Exit,
}

/// What a receiver does after it obtained (and answered) a request.
#[derive(Clone, Debug, PartialEq)]
pub enum AfterGet {
    /// call again at once
    Continue,
    /// be busy with something else for a while before looking at the queue again
    HoldMs(u64),
}

#[derive(Clone, Debug)]
pub struct RecvScript {
    pub ops: Vec<Op>,
    pub leave: Leave,
    pub after_get: AfterGet,
}

#[derive(Clone, Debug)]
pub struct ConnPlan {
    pub m: usize,
    pub pipelined: bool,
    pub gaps_us: Vec<u64>,
}

#[derive(Clone, Debug)]
pub struct Trial {
    pub id: u64,
    pub conns: Vec<ConnPlan>,
    pub receivers: Vec<RecvScript>,
    /// unblock() calls issued at seeded moments while requests are flowing
    pub unblocks_us: Vec<u64>,
}

#[derive(Clone, Debug)]
pub struct Ev {
    pub t_ns: u64,
    pub who: String,
    pub what: String,
}

pub struct Shared {
    pub delivered: Mutex<Vec<(usize, usize, usize, u64)>>, // conn, idx, receiver, t
    pub log: Mutex<Vec<Ev>>,
    pub stop: AtomicBool,
    pub alive: AtomicUsize,
    pub in_recv: AtomicUsize,
    pub empty_returns: AtomicUsize,
    pub unblocked_returns: AtomicUsize,
    pub foreign: AtomicUsize,
    /// requests of earlier trials of this worker that arrived late
    pub strays: AtomicUsize,
    /// a receiver that is unblocked leaves instead of calling again
    pub exit_on_unblock: AtomicBool,
    /// requests written to a socket so far
    pub sent: AtomicUsize,
    /// client-side trouble that is not the library's doing (connect failed or took very long)
    pub client_trouble: AtomicUsize,
}

impl Shared {
    pub fn ev_pub(&self, who: &str, what: String) {
        self.ev(who, what)
    }
    fn ev(&self, who: &str, what: String) {
        let mut l = self.log.lock().unwrap();
        if l.len() < 4000 {
            l.push(Ev { t_ns: now_ns(), who: who.to_string(), what });
        }
    }
}

fn gen_trial(rng: &mut Rng, id: u64) -> Trial {
    let p = rng.range(1, 6);
    let conns: Vec<ConnPlan> = (0..p)
        .map(|_| {
            let m = if rng.chance(1, 4) { rng.range(10, 30) } else { rng.range(1, 6) };
            ConnPlan { m, pipelined: rng.chance(1, 2), gaps_us: (0..m).map(|_| if rng.chance(1, 2) { 0 } else { rng.range(0, 4000) as u64 }).collect() }
        })
        .collect();
    // a tenth of the trials: one slow receiver in recv() behind which a backlog builds up (one
    // pipelined connection, requests back to back) while unblock() is called a few times: the
    // tokens land in the middle of the backlog and the receiver must still see wire order
    if rng.chance(1, 10) {
        let m = rng.range(8, 16);
        let conns = vec![ConnPlan { m, pipelined: true, gaps_us: vec![0; m] }];
        let receivers = vec![RecvScript {
            ops: vec![if rng.chance(1, 2) { Op::Recv } else { Op::IterNext }],
            leave: Leave::Loop,
            after_get: AfterGet::HoldMs(rng.range(3, 12) as u64),
        }];
        let unblocks_us = (0..rng.range(2, 4)).map(|_| rng.range(500, 6000) as u64).collect();
        return Trial { id, conns, receivers, unblocks_us };
    }
    let c = rng.range(1, 8);
    let mut receivers = Vec::new();
    // a quarter of the trials: an application whose workers are busy for a while after each
    // request. A request queued meanwhile must go to another blocked worker at once.
    let busy_workers = rng.chance(1, 4);
    if busy_workers {
        let nb = rng.range(2, 4);
        for _ in 0..nb {
            receivers.push(RecvScript {
                ops: vec![if rng.chance(1, 2) { Op::Recv } else { Op::IterNext }],
                leave: Leave::Loop,
                after_get: AfterGet::HoldMs(rng.range(400, 600) as u64),
            });
        }
        // a burst: every connection sends its first request at once, few requests in total
        let conns: Vec<ConnPlan> = conns
            .into_iter()
            .map(|mut c| {
                c.m = c.m.min(2);
                c.gaps_us.truncate(c.m);
                c.gaps_us[0] = 0;
                c
            })
            .collect();
        return Trial { id, conns, receivers, unblocks_us: Vec::new() };
    }
    // receiver 0 never leaves: whatever is queued must reach it
    receivers.push(RecvScript { ops: vec![if rng.chance(1, 2) { Op::Recv } else { Op::IterNext }], leave: Leave::Loop, after_get: AfterGet::Continue });
    let touts = [0u64, 300, 900, 2000, 5000, 20000, u64::MAX];
    for _ in 1..c {
        let n = rng.range(1, 3);
        let ops = (0..n)
            .map(|_| match rng.below(6) {
                0 => Op::Recv,
                1 => Op::IterNext,
                2 => Op::TryRecv,
                _ => Op::RecvTimeout(*rng.pick(&touts)),
            })
            .collect();
        let leave = match rng.below(4) {
            0 => Leave::Loop,
            1 => Leave::Exit,
            _ => Leave::SleepMs(rng.range(5, 80) as u64),
        };
        receivers.push(RecvScript { ops, leave, after_get: AfterGet::Continue });
    }
    // a fifth of the trials: the application only polls (try_recv / timed receives in a loop), and
    // unblock() is called now and then; every request must still come out
    if rng.chance(1, 5) {
        receivers.clear();
        for _ in 0..rng.range(1, 3) {
            let ops = (0..rng.range(1, 2)).map(|_| if rng.chance(2, 3) { Op::TryRecv } else { Op::RecvTimeout(*rng.pick(&[0u64, 300, 2000])) }).collect();
            receivers.push(RecvScript { ops, leave: Leave::Loop, after_get: AfterGet::Continue });
        }
    }
    let unblocks_us = if rng.chance(1, 3) { (0..rng.range(1, 4)).map(|_| rng.range(0, 20000) as u64).collect() } else { Vec::new() };
    Trial { id, conns, receivers, unblocks_us }
}

/// Set when a library call made by the harness panicked (on a defective tree a receive call may
/// panic while holding the queue mutex; every later queue operation then panics as well).
pub static LIB_PANICKED: AtomicBool = AtomicBool::new(false);

/// ids of the trials this worker has started (a request carrying one of them that shows up in a
/// later trial was left behind by a trial that was given up, it is not a corrupted request)
pub static KNOWN_TRIALS: Mutex<Vec<u64>> = Mutex::new(Vec::new());

/// Queue operations of the monitor itself, safe against a poisoned queue mutex.
pub trait SafeQueueOps {
    fn vsnap(&self) -> tiny_http::verif::QueueSnapshot;
    fn vunblock(&self);
}

impl SafeQueueOps for Server {
    fn vsnap(&self) -> tiny_http::verif::QueueSnapshot {
        match std::panic::catch_unwind(std::panic::AssertUnwindSafe(|| self.verif_queue_snapshot())) {
            Ok(s) => s,
            Err(_) => {
                LIB_PANICKED.store(true, Ordering::SeqCst);
                tiny_http::verif::QueueSnapshot { elems: 0, tokens: 0, pushes: 0, tokens_in: 0, blocked_pop: 0, blocked_pop_timeout: 0 }
            }
        }
    }
    fn vunblock(&self) {
        if std::panic::catch_unwind(std::panic::AssertUnwindSafe(|| self.unblock())).is_err() {
            LIB_PANICKED.store(true, Ordering::SeqCst);
        }
    }
}

/// Text of the panics recorded by the process-wide hook so far (not consumed).
pub fn panic_texts() -> Vec<String> {
    crate::env::panics_peek().iter().map(|p| format!("[{}] {} at {}", p.thread, p.message, p.location)).collect()
}

/// `u64::MAX` microseconds stands for `Duration::MAX` ("wait for ever" spelled as a timeout)
pub fn timeout_of(us: u64) -> Duration {
    if us == u64::MAX {
        Duration::MAX
    } else {
        Duration::from_micros(us)
    }
}

fn parse_url(url: &str) -> Option<(u64, usize, usize)> {
    // /q/<trial>/<conn>/<idx>
    let mut it = url.split('/');
    it.next()?;
    if it.next()? != "q" {
        return None;
    }
    let t = u64::from_str_radix(it.next()?, 16).ok()?;
    let c = it.next()?.parse().ok()?;
    let i = it.next()?.parse().ok()?;
    Some((t, c, i))
}

pub fn receiver_loop(server: Arc<Server>, sh: Arc<Shared>, trial: u64, ridx: usize, script: RecvScript) {
    let who = format!("r{}", ridx);
    let mut i = 0usize;
    loop {
        if sh.stop.load(Ordering::SeqCst) && script.ops.iter().all(|o| !matches!(o, Op::Recv | Op::IterNext)) {
            break;
        }
        let op = script.ops[i % script.ops.len()].clone();
        i += 1;
        sh.ev(&who, format!("call {:?}", op));
        let blocking = matches!(op, Op::Recv | Op::IterNext);
        if blocking {
            sh.in_recv.fetch_add(1, Ordering::SeqCst);
        }
        // Ok(Some) = request, Ok(None) = empty-handed, Err = unblocked
        let called = std::panic::catch_unwind(std::panic::AssertUnwindSafe(|| -> Result<Option<tiny_http::Request>, ()> {
            match &op {
                Op::Recv => lib(|| server.recv()).map(Some).map_err(|_| ()),
                Op::IterNext => match lib(|| server.incoming_requests().next()) {
                    Some(rq) => Ok(Some(rq)),
                    None => Err(()),
                },
                Op::RecvTimeout(us) => lib(|| server.recv_timeout(timeout_of(*us))).map_err(|_| ()),
                Op::TryRecv => lib(|| server.try_recv()).map_err(|_| ()),
            }
        }));
        let r = match called {
            Ok(r) => r,
            Err(_) => {
                // the receive call itself panicked inside the library
                LIB_PANICKED.store(true, Ordering::SeqCst);
                sh.ev(&who, format!("PANIC inside {:?}", op));
                if blocking {
                    sh.in_recv.fetch_sub(1, Ordering::SeqCst);
                }
                break;
            }
        };
        if blocking {
            sh.in_recv.fetch_sub(1, Ordering::SeqCst);
        }
        match r {
            Ok(Some(rq)) => {
                let url = rq.url().to_string();
                if crate::env::is_control(&rq) {
                    let _ = lib(|| rq.respond(Response::from_string("ctl")));
                    continue;
                }
                match parse_url(&url) {
                    Some((t, c, idx)) if t == trial => {
                        sh.delivered.lock().unwrap().push((c, idx, ridx, now_ns()));
                        sh.ev(&who, format!("got {}/{}", c, idx));
                    }
                    Some((t, _, _)) if KNOWN_TRIALS.lock().unwrap().contains(&t) => {
                        // left behind by an earlier trial of this worker (one that was given up)
                        sh.strays.fetch_add(1, Ordering::SeqCst);
                        sh.ev(&who, format!("got a request of earlier trial {:x}", t));
                    }
                    _ => {
                        sh.foreign.fetch_add(1, Ordering::SeqCst);
                        sh.ev(&who, format!("got foreign {}", url));
                    }
                }
                let _ = lib(|| rq.respond(Response::from_string("ok")));
                if let AfterGet::HoldMs(ms) = script.after_get {
                    let end = Instant::now() + Duration::from_millis(ms);
                    while Instant::now() < end && !sh.stop.load(Ordering::SeqCst) {
                        sleep_us(500);
                    }
                }
            }
            Ok(None) => {
                sh.empty_returns.fetch_add(1, Ordering::SeqCst);
                sh.ev(&who, "empty-handed".into());
                if sh.stop.load(Ordering::SeqCst) {
                    break;
                }
                match script.leave {
                    Leave::Loop => {
                        if matches!(op, Op::TryRecv | Op::RecvTimeout(0)) {
                            sleep_us(100);
                        }
                    }
                    Leave::SleepMs(ms) => {
                        // sleep in slices so the end of the trial is noticed
                        let end = Instant::now() + Duration::from_millis(ms);
                        while Instant::now() < end && !sh.stop.load(Ordering::SeqCst) {
                            sleep_us(500);
                        }
                    }
                    Leave::Exit => break,
                }
            }
            Err(()) => {
                sh.unblocked_returns.fetch_add(1, Ordering::SeqCst);
                sh.ev(&who, "unblocked".into());
                if sh.stop.load(Ordering::SeqCst) || sh.exit_on_unblock.load(Ordering::SeqCst) {
                    break;
                }
                // an unblock outside the end-of-trial phase is the stall oracle's kick: go on
            }
        }
    }
    sh.alive.fetch_sub(1, Ordering::SeqCst);
}

pub fn client_thread(addr: crate::net::Addr, trial: u64, cidx: usize, plan: ConnPlan, sh: Arc<Shared>) -> usize {
    let who = format!("c{}", cidx);
    let t_conn = Instant::now();
    let mut c = match Client::connect(&addr) {
        Ok(c) => c,
        Err(e) => {
            sh.ev(&who, format!("connect failed: {}", e));
            sh.client_trouble.fetch_add(1, Ordering::SeqCst);
            return 0;
        }
    };
    if t_conn.elapsed() > Duration::from_millis(200) {
        sh.ev(&who, format!("connect took {} ms", t_conn.elapsed().as_millis()));
        sh.client_trouble.fetch_add(1, Ordering::SeqCst);
    }
    let mut answered = 0;
    for i in 0..plan.m {
        let g = plan.gaps_us[i];
        if g > 0 {
            sleep_us(g);
        }
        let rq = format!("GET /q/{:x}/{}/{} HTTP/1.1\r\nHost: h\r\n\r\n", trial, cidx, i);
        sh.ev(&who, format!("send {}/{}", cidx, i));
        c.send(rq.as_bytes());
        sh.sent.fetch_add(1, Ordering::SeqCst);
        if !plan.pipelined {
            // wait for the response, but not forever: a stuck request is the monitor's business
            match c.await_finals(i + 1, &|_| false, Duration::from_millis(4000)) {
                crate::net::Got::Msg => answered += 1,
                _ => return answered,
            }
        }
    }
    if plan.pipelined {
        if let crate::net::Got::Msg = c.await_finals(plan.m, &|_| false, Duration::from_millis(4000)) {}
        answered = c.finals;
    }
    answered
}

fn snap_json(s: &tiny_http::verif::QueueSnapshot) -> J {
    J::obj()
        .set("elems", J::u(s.elems))
        .set("tokens", J::u(s.tokens))
        .set("pushes", J::u(s.pushes))
        .set("tokens_in", J::u(s.tokens_in))
        .set("blocked_pop", J::u(s.blocked_pop))
        .set("blocked_pop_timeout", J::u(s.blocked_pop_timeout))
}

fn log_json(sh: &Shared, last: usize) -> J {
    let l = sh.log.lock().unwrap();
    let from = l.len().saturating_sub(last);
    J::A(l[from..].iter().map(|e| J::s(format!("{:>9} us {:>3} {}", e.t_ns / 1000, e.who, e.what))).collect())
}

/// Start of a trial: nothing of an earlier trial may still be on its way. The clients of earlier
/// trials are gone, so their connection tasks end once they have pushed what they had parsed;
/// wait for that, then throw away whatever they left in the queue. (Without this a request that
/// was still inside its connection thread when the previous trial drained the queue shows up in
/// the middle of the next trial.)
pub fn settle(server: &Arc<Server>) -> bool {
    let target = crate::net::CONNECTS.load(Ordering::SeqCst);
    let quiet = crate::env::wait_tasks_done(target, Duration::from_secs(3));
    for _ in 0..10_000 {
        let s = server.vsnap();
        if s.elems == 0 && s.tokens == 0 {
            break;
        }
        if let Ok(Some(rq)) = std::panic::catch_unwind(std::panic::AssertUnwindSafe(|| server.try_recv())).unwrap_or(Ok(None)) {
            let _ = rq.respond(Response::from_string("drained"));
        }
    }
    quiet
}

/// End of a trial: release every receiver that is still there, drain what is left in the queue.
pub fn wind_down(server: &Arc<Server>, sh: &Arc<Shared>, handles: Vec<std::thread::JoinHandle<()>>) -> bool {
    sh.stop.store(true, Ordering::SeqCst);
    let t = Instant::now();
    while sh.alive.load(Ordering::SeqCst) > 0 {
        if t.elapsed() > Duration::from_secs(10) {
            return false;
        }
        // one token per receiver still blocked in recv; repeated because (on a defective tree) a
        // token's notification can itself be lost
        let s = server.vsnap();
        if s.blocked_pop + s.blocked_pop_timeout > s.tokens {
            server.vunblock();
        } else {
            sleep_us(300);
            let s2 = server.vsnap();
            if s2.blocked_pop > 0 && s2.tokens >= s2.blocked_pop && sh.alive.load(Ordering::SeqCst) > 0 {
                // tokens are queued, receivers still blocked: nudge
                server.vunblock();
            }
        }
        sleep_us(200);
    }
    for h in handles {
        let _ = h.join();
    }
    // drain left-over tokens / requests
    for _ in 0..10_000 {
        let s = server.vsnap();
        if s.elems == 0 && s.tokens == 0 {
            break;
        }
        if let Ok(Some(rq)) = server.try_recv() {
            let _ = rq.respond(Response::from_string("drained"));
        }
    }
    true
}

pub fn run_trial(ctx: &Ctx, env: &Env, trial: &Trial, case_seed: u64, mode: &str) {
    let rep = &ctx.rep;
    let server = env.server.clone();
    if !settle(&server) {
        rep.inconclusive("connection tasks of earlier trials did not end within 3 s");
        return;
    }
    KNOWN_TRIALS.lock().unwrap().push(trial.id);
    let sh = Arc::new(Shared {
        delivered: Mutex::new(Vec::new()),
        log: Mutex::new(Vec::new()),
        stop: AtomicBool::new(false),
        alive: AtomicUsize::new(trial.receivers.len()),
        in_recv: AtomicUsize::new(0),
        empty_returns: AtomicUsize::new(0),
        unblocked_returns: AtomicUsize::new(0),
        foreign: AtomicUsize::new(0),
        strays: AtomicUsize::new(0),
        exit_on_unblock: AtomicBool::new(false),
        sent: AtomicUsize::new(0),
        client_trouble: AtomicUsize::new(0),
    });
    let mut rh = Vec::new();
    for (i, s) in trial.receivers.iter().enumerate() {
        let (server, sh, s) = (server.clone(), sh.clone(), s.clone());
        let id = trial.id;
        rh.push(spawn_named(&format!("rcv{}", i), move || receiver_loop(server, sh, id, i, s)));
    }
    let cal = CalWindow::open();
    let mut ch = Vec::new();
    for (i, p) in trial.conns.iter().enumerate() {
        let (addr, sh, p) = (env.addr.clone(), sh.clone(), p.clone());
        let id = trial.id;
        ch.push(spawn_named(&format!("cl{}", i), move || client_thread(addr, id, i, p, sh)));
    }
    let unb = {
        let (server, sh, times) = (server.clone(), sh.clone(), trial.unblocks_us.clone());
        spawn_named("unb", move || {
            for t in times {
                sleep_us(t);
                sh.ev_pub("unb", "unblock()".into());
                server.vunblock();
            }
        })
    };
    let total: usize = trial.conns.iter().map(|c| c.m).sum();
    // monitor: progress = deliveries; distinct snapshot states are evidence
    let mut states: std::collections::HashSet<(usize, usize, usize)> = std::collections::HashSet::new();
    let mut last_count = 0usize;
    let mut last_progress = Instant::now();
    let t0 = Instant::now();
    let mut verdict: Option<(String, String, J)> = None;
    let mut inconclusive: Option<String> = None;
    loop {
        let n = sh.delivered.lock().unwrap().len();
        let s = server.vsnap();
        states.insert((s.elems.min(9), s.blocked_pop, s.blocked_pop_timeout));
        if n >= total {
            break;
        }
        if LIB_PANICKED.load(Ordering::SeqCst) {
            sleep_us(300_000);
            break;
        }
        if n != last_count {
            last_count = n;
            last_progress = Instant::now();
        }
        if last_progress.elapsed() > Duration::from_millis(300) {
            // no delivery for 300 ms
            // (a receiver inside a timed receive counts too: with the finite timeouts of the trials,
            // at most 20 ms, such a state cannot last 300 ms unless its timeout is the endless one)
            if s.elems >= 1 && s.blocked_pop + s.blocked_pop_timeout >= 1 {
                // stuck state: confirm it is stable, that we were scheduled, then kick
                let s2 = {
                    sleep_us(20_000);
                    server.vsnap()
                };
                if s2.elems >= 1 && s2.blocked_pop + s2.blocked_pop_timeout >= 1 && s2.pushes == s.pushes && sh.delivered.lock().unwrap().len() == n {
                    if !cal.healthy(Duration::from_millis(150)) {
                        inconclusive = Some("stuck queue state but the calibrator shows the process was not scheduled".into());
                        break;
                    }
                    sh.ev("mon", format!("stuck: {:?} -> kick unblock()", s2));
                    server.vunblock();
                    let kick_t = Instant::now();
                    let mut after = n;
                    while kick_t.elapsed() < Duration::from_millis(150) {
                        after = sh.delivered.lock().unwrap().len();
                        if after > n {
                            break;
                        }
                        sleep_us(200);
                    }
                    if after > n {
                        let d = sh.delivered.lock().unwrap().last().cloned().unwrap();
                        verdict = Some((
                            "C07/lost-wakeup".into(),
                            format!(
                                "request {}/{} stayed queued for {} ms while a receiver was blocked in recv(); it was delivered {} us after an unrelated unblock()",
                                d.0,
                                d.1,
                                last_progress.elapsed().as_millis(),
                                kick_t.elapsed().as_micros()
                            ),
                            J::obj().set("snapshot_before_kick", snap_json(&s2)),
                        ));
                        // let the remaining requests flow so that the trial can end
                        last_progress = Instant::now();
                        last_count = after;
                        continue;
                    } else {
                        inconclusive = Some("stuck queue state did not resolve after the kick".into());
                        break;
                    }
                }
            }
            if last_progress.elapsed() > Duration::from_millis(2500) {
                // clients done? then requests are missing
                let s3 = server.vsnap();
                let sent = sh.sent.load(Ordering::SeqCst);
                let n = sh.delivered.lock().unwrap().len();
                if !cal.healthy(Duration::from_millis(250)) {
                    inconclusive = Some("no progress and calibrator unhealthy".into());
                } else if n >= sent {
                    // everything that was written to a socket was handed out; the clients did not
                    // get to send the rest (connect refused / SYN retransmission under load)
                    inconclusive = Some(format!(
                        "clients sent only {} of {} requests (client-side trouble events: {})",
                        sent,
                        total,
                        sh.client_trouble.load(Ordering::SeqCst)
                    ));
                } else if verdict.is_none() {
                    verdict = Some((
                        "C07/request-not-delivered".into(),
                        format!("{} of {} requests written to a connection were never handed to a receiver", sent - n, sent),
                        J::obj().set("snapshot", snap_json(&s3)).set("planned", J::u(total)),
                    ));
                }
                break;
            }
        }
        if t0.elapsed() > Duration::from_secs(30) {
            inconclusive = Some("trial watchdog (30 s)".into());
            break;
        }
        sleep_us(1000);
    }
    let mut answered = 0;
    for h in ch {
        answered += h.join().unwrap_or(0);
    }
    let _ = unb.join();
    let poisoned = LIB_PANICKED.load(Ordering::SeqCst);
    if poisoned {
        // a receive call panicked inside the library; when that happened under the queue mutex
        // no request can be queued any more and blocked receivers can never be released
        let sent = sh.sent.load(Ordering::SeqCst);
        let n = sh.delivered.lock().unwrap().len();
        verdict = Some((
            "C07/receive-call-panicked".into(),
            format!(
                "a receive call panicked inside the library; {} of {} requests written afterwards or before were never handed to a receiver",
                sent.saturating_sub(n),
                sent
            ),
            J::obj().set("panics", J::A(panic_texts().iter().take(6).map(J::s).collect())),
        ));
        inconclusive = None;
        sh.stop.store(true, Ordering::SeqCst);
        // blocked receivers cannot be released through a poisoned queue: leave them behind
        drop(rh);
    } else if !wind_down(&server, &sh, rh) && verdict.is_none() {
        inconclusive = Some("receivers did not wind down".into());
    }
    // offline checks over the delivery history
    let del = sh.delivered.lock().unwrap().clone();
    let mut seen: HashMap<(usize, usize), usize> = HashMap::new();
    for d in &del {
        *seen.entry((d.0, d.1)).or_insert(0) += 1;
    }
    if verdict.is_none() && inconclusive.is_none() {
        if let Some((k, c)) = seen.iter().find(|(_, c)| **c > 1) {
            verdict = Some(("C07/delivered-twice".into(), format!("request {}/{} was handed out {} times", k.0, k.1, c), J::Null));
        } else if sh.foreign.load(Ordering::SeqCst) > 0 {
            verdict = Some(("C07/foreign-request".into(), "a request that was not sent in this trial was delivered".into(), J::Null));
        } else if trial.receivers.len() == 1 {
            let mut last: HashMap<usize, usize> = HashMap::new();
            for d in &del {
                if let Some(prev) = last.get(&d.0) {
                    if d.1 <= *prev {
                        verdict = Some((
                            "C07/single-receiver-order".into(),
                            format!("single receiver saw request {}/{} after {}/{}", d.0, d.1, d.0, prev),
                            J::Null,
                        ));
                        break;
                    }
                }
                last.insert(d.0, d.1);
            }
        }
        if verdict.is_none() && answered != total {
            // every delivered request is answered at once; a client that did not get its
            // responses means a request was lost between socket and queue
            verdict = Some((
                "C07/client-unanswered".into(),
                format!("clients got {} responses for {} requests", answered, total),
                J::Null,
            ));
        }
    }
    // evidence
    rep.counts.add("requests_sent", total as u64);
    rep.counts.add("requests_delivered", del.len() as u64);
    rep.counts.add("empty_handed_returns", sh.empty_returns.load(Ordering::SeqCst) as u64);
    for r in &trial.receivers {
        for o in &r.ops {
            rep.inc(&format!("receiver_op:{}", match o { Op::Recv => "recv", Op::IterNext => "incoming_requests", Op::TryRecv => "try_recv", Op::RecvTimeout(_) => "recv_timeout" }));
        }
    }
    {
        let mut ex = rep.extra.lock().unwrap();
        let e = ex.entry("snapshot_states_seen".into()).or_insert(J::A(Vec::new()));
        if let J::A(v) = e {
            for s in &states {
                let js = J::s(format!("elems={} blocked_recv={} blocked_recv_timeout={}", s.0, s.1, s.2));
                if v.len() < 200 && !v.iter().any(|x| x.to_string() == js.to_string()) {
                    v.push(js);
                }
            }
        }
    }
    let kinds: std::collections::BTreeSet<String> = trial.receivers.iter().flat_map(|r| r.ops.iter().map(|o| format!("{:?}", o))).collect();
    let sig = format!(
        "P{}|C{}|{:?}|{:?}",
        trial.conns.len(),
        trial.receivers.len(),
        kinds,
        trial.receivers.iter().map(|r| format!("{:?}", r.leave).chars().take(5).collect::<String>()).collect::<Vec<_>>()
    );
    if let Some(why) = inconclusive {
        rep.inconclusive(&why);
        return;
    }
    let nontrivial = trial.receivers.len() > 1 || trial.conns.len() > 1;
    rep.eval(if nontrivial { Some(&sig) } else { None });
    if let Some((signature, what, extra)) = verdict {
        rep.violation(Violation {
            signature,
            what,
            detail: J::obj()
                .set("trial", J::s(format!("{:?}", trial).chars().take(3000).collect::<String>()))
                .set("extra", extra)
                .set("history_tail", log_json(&sh, 120)),
            case_seed,
            mode: mode.to_string(),
        });
    } else if rep.want_sample() && case_seed % 11 == 0 {
        rep.sample(|| {
            J::obj()
                .set("connections", J::A(trial.conns.iter().map(|c| J::s(format!("m={} pipelined={}", c.m, c.pipelined))).collect()))
                .set("receivers", J::A(trial.receivers.iter().map(|r| J::s(format!("{:?} then {:?}", r.ops, r.leave))).collect()))
                .set("delivered", J::u(del.len()))
                .set("history_head", log_json(&sh, 4000).clone())
        });
    }
}

pub fn run(ctx: &Ctx) {
    crate::env::install_fp_hook();
    use tiny_http::verif as v;
    if let Some((cs, mode, repeat)) = &ctx.replay {
        let env = Env::new(false, 0);
        crate::env::fp_configure(*cs, &[v::FP_CONN_PRE_PUSH], 200, 300);
        for _ in 0..(*repeat).max(1) {
            let mut rng = Rng::new(*cs);
            let t = gen_trial(&mut rng, *cs & 0xffff_ffff);
            run_trial(ctx, &env, &t, *cs, mode);
        }
        return;
    }
    let mut rng = Rng::new(ctx.seed ^ ((ctx.shard as u64) << 32) ^ 0xC07);
    let pert = crate::env::perturb_setup(&mut rng, ctx.shard, true);
    let permille = *rng.pick(&[0u32, 100, 300]);
    crate::env::fp_configure(ctx.seed ^ ctx.shard as u64, &[v::FP_CONN_PRE_PUSH], permille, 300);
    let mut env = Env::new(false, 0);
    let mut idx = 0u64;
    while ctx.time_left() {
        if env.cases_run >= 300 {
            env = Env::new(false, 0);
        }
        let cs = ctx.case_seed(idx);
        let mut r = Rng::new(cs);
        let t = gen_trial(&mut r, cs & 0xffff_ffff);
        run_trial(ctx, &env, &t, cs, "native");
        env.cases_run += 1;
        if LIB_PANICKED.load(Ordering::SeqCst) {
            // the shared server is unusable from here on
            std::mem::forget(env);
            break;
        }
        idx += 1;
        if ctx.rep.n_violations() >= 6 {
            break;
        }
    }
    ctx.rep.set_extra("perturbation", J::s(format!("{} fp_delay_permille={}", pert.desc, permille)));
    ctx.rep.set_extra("failpoints", J::O(crate::env::fp_hits().into_iter().map(|(k, v)| (k, J::I(v as i64))).collect()));
}
