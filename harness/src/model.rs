//! Reference models written from the property statements (not from the code).

#[derive(Clone, Copy, Debug, PartialEq, Eq, Hash, PartialOrd, Ord)]
pub enum Coding {
    Identity,
    Chunked,
}

/// How well-defined the rank of one TE element is.
#[derive(Clone, Copy, Debug, PartialEq)]
enum Q {
    Exact(f64),
    /// not an RFC 7231 qvalue / unusual parameter syntax: the statement does not say how it is
    /// read, so any weight in [0,1] is admissible
    Ambiguous,
}

fn is_ows(c: char) -> bool {
    c == ' ' || c == '\t'
}

/// RFC 7231 qvalue: ( "0" [ "." 0*3DIGIT ] ) / ( "1" [ "." 0*3("0") ] )
fn parse_qvalue(s: &str) -> Option<f64> {
    let b = s.as_bytes();
    if b.is_empty() || b.len() > 5 {
        return None;
    }
    match b[0] {
        b'0' => {
            if b.len() == 1 {
                return Some(0.0);
            }
            if b[1] != b'.' {
                return None;
            }
            if !b[2..].iter().all(|c| c.is_ascii_digit()) {
                return None;
            }
            s.parse::<f64>().ok()
        }
        b'1' => {
            if b.len() == 1 {
                return Some(1.0);
            }
            if b[1] != b'.' || !b[2..].iter().all(|c| *c == b'0') {
                return None;
            }
            Some(1.0)
        }
        _ => None,
    }
}

/// Parses a TE header value into (coding name, rank) elements.
fn parse_te(value: &str) -> Vec<(String, Q)> {
    let mut out = Vec::new();
    for elem in value.split(',') {
        let mut parts = elem.split(';');
        let name = parts.next().unwrap_or("").trim_matches(is_ows).to_string();
        if name.is_empty() {
            continue;
        }
        let mut q = Q::Exact(1.0);
        let mut seen_q = 0;
        for p in parts {
            let p = p.trim_matches(is_ows);
            let (k, v) = match p.find('=') {
                Some(i) => (&p[..i], &p[i + 1..]),
                None => (p, ""),
            };
            if k.eq_ignore_ascii_case("q") {
                seen_q += 1;
                if k == "q" && seen_q == 1 {
                    q = match parse_qvalue(v) {
                        Some(x) => Q::Exact(x),
                        None => Q::Ambiguous,
                    };
                } else {
                    // upper-case Q or a repeated q parameter
                    q = Q::Ambiguous;
                }
            } else if k.trim_matches(is_ows) != k || k.contains(' ') {
                q = Q::Ambiguous;
            }
        }
        out.push((name, q));
    }
    out
}

/// The set of codings the statement of C05 admits for a response.
/// `te`: value of the request's (single) TE header, if any.
pub fn admissible_codings(
    version: (u8, u8),
    status: u16,
    te: Option<&str>,
    len: Option<usize>,
    threshold: usize,
) -> Vec<Coding> {
    if version <= (1, 0) {
        return vec![Coding::Identity];
    }
    if status < 200 || status == 204 {
        return vec![Coding::Identity];
    }
    let default = if len.map_or(true, |l| l >= threshold) { Coding::Chunked } else { Coding::Identity };
    let elems: Vec<(Coding, Q)> = te
        .map(parse_te)
        .unwrap_or_default()
        .into_iter()
        .filter_map(|(n, q)| {
            if n.eq_ignore_ascii_case("chunked") {
                Some((Coding::Chunked, q))
            } else if n.eq_ignore_ascii_case("identity") {
                Some((Coding::Identity, q))
            } else {
                None
            }
        })
        .collect();
    if elems.is_empty() {
        return vec![default];
    }
    // enumerate the readings of ambiguous weights
    let cands = [0.0, 0.0005, 0.25, 0.7, 0.95, 1.0];
    let amb: Vec<usize> = elems.iter().enumerate().filter(|(_, e)| e.1 == Q::Ambiguous).map(|(i, _)| i).collect();
    let mut result: Vec<Coding> = Vec::new();
    let n_assign = cands.len().pow(amb.len().min(4) as u32);
    for a in 0..n_assign {
        let mut w: Vec<f64> = elems.iter().map(|e| if let Q::Exact(x) = e.1 { x } else { 0.0 }).collect();
        let mut k = a;
        for (j, idx) in amb.iter().enumerate() {
            if j >= 4 {
                w[*idx] = 1.0;
                continue;
            }
            w[*idx] = cands[k % cands.len()];
            k /= cands.len();
        }
        let best = w.iter().cloned().fold(0.0, f64::max);
        if best <= 0.0 {
            if !result.contains(&default) {
                result.push(default);
            }
            continue;
        }
        for (i, e) in elems.iter().enumerate() {
            if w[i] == best && !result.contains(&e.0) {
                result.push(e.0);
            }
        }
    }
    result.sort();
    result
}

// ---------------------------------------------------------------------------------------------
// connection persistence (C12 statement)

/// true if the request ends the connection.
/// `connection`: value of the (single) Connection header, if present.
pub fn ends_connection(version: (u8, u8), connection: Option<&str>) -> bool {
    let lc = connection.map(|c| c.to_ascii_lowercase());
    if version >= (1, 1) {
        match lc {
            Some(v) => v.contains("close") || v.contains("upgrade"),
            None => false,
        }
    } else {
        match lc {
            Some(v) => !v.contains("keep-alive") || v.contains("close") || v.contains("upgrade"),
            None => true,
        }
    }
}

#[cfg(test)]
mod tests {
    use super::*;
    #[test]
    fn te() {
        use Coding::*;
        assert_eq!(admissible_codings((1, 1), 200, None, Some(5), 10), vec![Identity]);
        assert_eq!(admissible_codings((1, 1), 200, None, Some(10), 10), vec![Chunked]);
        assert_eq!(admissible_codings((1, 1), 200, None, None, 10), vec![Chunked]);
        assert_eq!(admissible_codings((1, 0), 200, Some("chunked"), None, 10), vec![Identity]);
        assert_eq!(admissible_codings((1, 1), 204, Some("chunked"), None, 10), vec![Identity]);
        assert_eq!(admissible_codings((1, 1), 200, Some("chunked"), Some(1), 10), vec![Chunked]);
        assert_eq!(admissible_codings((1, 1), 200, Some("identity;q=0.5, chunked;q=0.9"), Some(1), 10), vec![Chunked]);
        assert_eq!(admissible_codings((1, 1), 200, Some("identity;q=0.5, chunked;q=0"), Some(100), 10), vec![Identity]);
        assert_eq!(admissible_codings((1, 1), 200, Some("identity;q=0, chunked;q=0"), Some(100), 10), vec![Chunked]);
        assert_eq!(admissible_codings((1, 1), 200, Some("identity, chunked"), Some(100), 10), vec![Identity, Chunked]);
        assert_eq!(admissible_codings((1, 1), 200, Some("gzip, trailers"), Some(1), 10), vec![Identity]);
        assert_eq!(admissible_codings((1, 1), 200, Some("identity;q=abc, chunked;q=0.5"), Some(1), 10), vec![Identity, Chunked]);
    }
}
