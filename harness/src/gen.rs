//! Generators: abstract requests -> bytes, with message boundaries known to the generator.

use crate::util::{fnv, pat_byte, Rng};

pub const STD_METHODS: &[&str] = &["GET", "HEAD", "POST", "PUT", "DELETE", "CONNECT", "OPTIONS", "TRACE", "PATCH"];
const TCHARS: &[u8] = b"!#$%&'*+-.^_`|~0123456789ABCDEFGHIJKLMNOPQRSTUVWXYZabcdefghijklmnopqrstuvwxyz";

#[derive(Clone, Debug)]
pub struct AbsReq {
    pub method: String,
    pub target: String,
    pub version: (u8, u8),
    /// (name, raw value as written after the colon, including any OWS padding)
    pub headers: Vec<(String, String)>,
}

pub fn trim_ows(s: &str) -> &str {
    s.trim_matches(|c| c == ' ' || c == '\t')
}

impl AbsReq {
    pub fn new(method: &str, target: &str, version: (u8, u8)) -> AbsReq {
        AbsReq { method: method.to_string(), target: target.to_string(), version, headers: Vec::new() }
    }
    pub fn h(mut self, n: &str, v: &str) -> AbsReq {
        self.headers.push((n.to_string(), v.to_string()));
        self
    }
    pub fn add(&mut self, n: &str, v: &str) {
        self.headers.push((n.to_string(), v.to_string()));
    }
    pub fn head_bytes(&self) -> Vec<u8> {
        let mut b = Vec::new();
        b.extend_from_slice(self.method.as_bytes());
        b.push(b' ');
        b.extend_from_slice(self.target.as_bytes());
        b.extend_from_slice(format!(" HTTP/{}.{}\r\n", self.version.0, self.version.1).as_bytes());
        for (n, v) in &self.headers {
            b.extend_from_slice(n.as_bytes());
            b.push(b':');
            b.extend_from_slice(v.as_bytes());
            b.extend_from_slice(b"\r\n");
        }
        b.extend_from_slice(b"\r\n");
        b
    }
    /// header list as the application must see it: values with surrounding OWS removed
    pub fn expected_headers(&self) -> Vec<(String, String)> {
        self.headers.iter().map(|(n, v)| (n.clone(), trim_ows(v).to_string())).collect()
    }
    pub fn header(&self, name: &str) -> Option<&str> {
        self.headers.iter().find(|(n, _)| n.eq_ignore_ascii_case(name)).map(|(_, v)| trim_ows(v))
    }
    /// hash of the head as delivered (names lower-cased); echoed by the handler in X-Echo
    pub fn echo(&self) -> u64 {
        echo_hash(&self.method, &self.target, self.version, &self.expected_headers())
    }
}

pub fn echo_hash(method: &str, target: &str, version: (u8, u8), headers: &[(String, String)]) -> u64 {
    let mut s = Vec::new();
    s.extend_from_slice(method.as_bytes());
    s.push(b'\n');
    s.extend_from_slice(target.as_bytes());
    s.push(b'\n');
    s.push(version.0);
    s.push(version.1);
    for (n, v) in headers {
        s.extend_from_slice(n.to_ascii_lowercase().as_bytes());
        s.push(b':');
        s.extend_from_slice(v.as_bytes());
        s.push(b'\n');
    }
    fnv(&s)
}

pub fn token(rng: &mut Rng, min: usize, max: usize) -> String {
    let n = rng.range(min, max);
    (0..n).map(|_| *rng.pick(TCHARS) as char).collect()
}

/// visible ASCII (0x21..=0x7e), no SP
pub fn vchars(rng: &mut Rng, n: usize) -> String {
    (0..n).map(|_| (0x21 + rng.below(0x5e) as u8) as char).collect()
}

fn random_case(rng: &mut Rng, s: &str) -> String {
    s.chars()
        .map(|c| if rng.chance(1, 2) { c.to_ascii_uppercase() } else { c.to_ascii_lowercase() })
        .collect()
}

/// header value: VCHAR / SP / HTAB inside, random OWS padding around
pub fn header_value(rng: &mut Rng) -> String {
    let inner_len = match rng.below(10) {
        0 => 0,
        1 => rng.range(200, 1500),
        2 => 1,
        _ => rng.range(1, 40),
    };
    let mut inner = String::new();
    for i in 0..inner_len {
        let c = if i == 0 || i == inner_len - 1 {
            // must be VCHAR at the edges so the reference "trim" is unambiguous
            (0x21 + rng.below(0x5e) as u8) as char
        } else {
            match rng.below(12) {
                0 => ' ',
                1 => '\t',
                2 => ':',
                3 => ',',
                _ => (0x21 + rng.below(0x5e) as u8) as char,
            }
        };
        inner.push(c);
    }
    let pads = ["", " ", "  ", "\t", " \t ", ""];
    format!("{}{}{}", rng.pick(&pads), inner, rng.pick(&pads))
}

const COMMON_NAMES: &[&str] = &[
    "Host", "User-Agent", "Accept", "Accept-Encoding", "Accept-Language", "Cookie", "Referer", "X-Forwarded-For",
    "Authorization", "If-None-Match", "Cache-Control", "X-Custom", "Origin", "Range", "Via",
];

/// A syntactically valid HTTP/1.0 or 1.1 head without body and without headers that change
/// framing or connection handling (those are only inserted with harmless values).
pub fn valid_head(rng: &mut Rng, max_headers: usize) -> AbsReq {
    let method = match rng.below(10) {
        0 => token(rng, 1, 12),
        1 => random_case(rng, rng.clone().pick_s(STD_METHODS)),
        _ => rng.pick(STD_METHODS).to_string(),
    };
    // HEAD changes how the client must read the response; keep it but let the caller know via method
    let tlen = match rng.below(12) {
        0 => rng.range(1000, 1100),
        1 => rng.range(4000, 4200),
        2 => rng.range(8000, 9000),
        3 => 1,
        _ => rng.range(1, 80),
    };
    let mut target = String::from("/");
    target.push_str(&vchars(rng, tlen - 1));
    let version = if rng.chance(1, 4) { (1, 0) } else { (1, 1) };
    let nh = match rng.below(8) {
        0 => 0,
        1 => rng.range(30, max_headers.max(30)),
        _ => rng.range(0, 8.min(max_headers)),
    };
    let mut r = AbsReq { method, target, version, headers: Vec::new() };
    for _ in 0..nh.min(max_headers) {
        let name = match rng.below(8) {
            0 => token(rng, 1, 30),
            1 => random_case(rng, rng.clone().pick_s(COMMON_NAMES)),
            2 => {
                // harmless framing/handling names
                let (n, v) = *rng.pick(&[
                    ("Content-Length", "0"),
                    ("Connection", "keep-alive"),
                    ("connection", "Keep-Alive"),
                    ("TE", "trailers"),
                    ("content-length", " 0 "),
                ]);
                r.add(n, v);
                continue;
            }
            _ => rng.pick(COMMON_NAMES).to_string(),
        };
        // never generate names that change framing or handling with arbitrary values
        let lname = name.to_ascii_lowercase();
        if ["content-length", "transfer-encoding", "expect", "connection", "te", "upgrade"].contains(&lname.as_str()) {
            continue;
        }
        let v = header_value(rng);
        r.headers.push((name, v));
    }
    // HTTP/1.0 needs keep-alive for the connection to persist; callers decide about that.
    r
}

// ---------------------------------------------------------------------------------------------
// bodies

#[derive(Clone, Debug)]
pub struct Chunking {
    /// (payload length, hex digits as written, extension text incl. leading ';' or empty)
    pub chunks: Vec<(usize, String, String)>,
    pub last_ext: String,
    pub last_zeros: usize,
}

pub fn gen_chunking(rng: &mut Rng, total: usize, max_chunk: usize) -> Chunking {
    let mut chunks = Vec::new();
    let mut left = total;
    while left > 0 {
        let n = rng.range(1, max_chunk.max(1)).min(left);
        let mut hex = if rng.chance(1, 2) { format!("{:x}", n) } else { format!("{:X}", n) };
        if rng.chance(1, 5) {
            hex = format!("{}{}", "0".repeat(rng.range(1, 4)), hex);
        }
        let ext = if rng.chance(1, 6) {
            (*rng.pick(&[";a=b", ";foo", ";x=\"q\"", ";n=1;m=2"])).to_string()
        } else {
            String::new()
        };
        chunks.push((n, hex, ext));
        left -= n;
    }
    Chunking {
        chunks,
        last_ext: if rng.chance(1, 8) { ";last=1".to_string() } else { String::new() },
        last_zeros: if rng.chance(1, 6) { rng.range(2, 4) } else { 1 },
    }
}

pub fn encode_chunked(data: &[u8], ch: &Chunking) -> Vec<u8> {
    let mut out = Vec::new();
    let mut pos = 0;
    for (n, hex, ext) in &ch.chunks {
        out.extend_from_slice(hex.as_bytes());
        out.extend_from_slice(ext.as_bytes());
        out.extend_from_slice(b"\r\n");
        out.extend_from_slice(&data[pos..pos + n]);
        out.extend_from_slice(b"\r\n");
        pos += n;
    }
    assert_eq!(pos, data.len());
    out.extend_from_slice("0".repeat(ch.last_zeros).as_bytes());
    out.extend_from_slice(ch.last_ext.as_bytes());
    out.extend_from_slice(b"\r\n\r\n");
    out
}

/// Body bytes. `hostile`: the body spells complete smuggled requests, so that a framing slip
/// delivers a request that was never sent as one.
pub fn body_bytes(tag: u64, len: usize, hostile: bool) -> Vec<u8> {
    if !hostile {
        return (0..len).map(|i| pat_byte(tag, i)).collect();
    }
    let mut out = Vec::with_capacity(len);
    let mut k = 0;
    while out.len() < len {
        let unit = format!("GET /smuggled/{:x}/{} HTTP/1.1\r\nHost: evil\r\n\r\n", tag & 0xffff_ffff, k);
        out.extend_from_slice(unit.as_bytes());
        k += 1;
    }
    out.truncate(len);
    out
}

/// k-way split of 0..len into segments; returns the segment end offsets (last == len)
pub fn random_splits(rng: &mut Rng, len: usize, k: usize) -> Vec<usize> {
    if len <= 1 || k <= 1 {
        return vec![len];
    }
    let mut cuts: Vec<usize> = (0..k - 1).map(|_| rng.range(1, len - 1)).collect();
    cuts.sort();
    cuts.dedup();
    cuts.push(len);
    cuts
}
