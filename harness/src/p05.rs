//! C05 – chunked/identity selection is a fixed function of version, status, TE and length.
//! Pure engine: the real `Response::raw_print` writes into a Vec<u8>; the reference decision comes
//! from `model::admissible_codings` (set-valued where the statement is silent).
//! The finite grid is executed completely (sharded by index), thorough adds random TE strings.

use crate::httpc;
use crate::model::{admissible_codings, Coding};
use crate::report::Violation;
use crate::util::{pattern, Rng, J};
use crate::Ctx;
use std::io::Read;
use tiny_http::{HTTPVersion, Header, Response, StatusCode};

/// A reader that hands out its data in seeded piece sizes.
pub struct PieceReader {
    pub data: Vec<u8>,
    pub pos: usize,
    pub rng: Rng,
    pub max_piece: usize,
}

impl Read for PieceReader {
    fn read(&mut self, buf: &mut [u8]) -> std::io::Result<usize> {
        if self.pos >= self.data.len() || buf.is_empty() {
            return Ok(0);
        }
        let want = 1 + self.rng.below(self.max_piece.max(1));
        let n = want.min(buf.len()).min(self.data.len() - self.pos);
        buf[..n].copy_from_slice(&self.data[self.pos..self.pos + n]);
        self.pos += n;
        Ok(n)
    }
}

pub const TE_VALUES: &[&str] = &[
    "chunked",
    "identity",
    "trailers",
    "gzip",
    "",
    "CHUNKED",
    "Identity",
    "cHuNkEd",
    "chunked, identity",
    "identity, chunked",
    "trailers, chunked",
    "gzip, identity",
    "trailers, gzip",
    "chunked;q=1, identity;q=0.9",
    "chunked;q=0.9, identity;q=1",
    "identity;q=0.9, chunked;q=1",
    "identity;q=1, chunked;q=0.9",
    "chunked;q=0.5, identity;q=0.001",
    "chunked;q=0.001, identity;q=0.5",
    "chunked;q=0",
    "identity;q=0",
    "chunked;q=0.0",
    "identity;q=0.000",
    "chunked;q=0, identity;q=0",
    "chunked;q=0, identity;q=0.5",
    "identity;q=0, chunked;q=0.001",
    "chunked;q=0, identity",
    "identity;q=0, chunked",
    "gzip;q=1, chunked;q=0.5",
    "gzip;q=1, identity;q=0.5, chunked;q=0.9",
    "trailers, identity;q=0.5, gzip;q=0.9, chunked;q=0.7",
    "chunked ; q=0.5 , identity ; q=0.9",
    "chunked;q=0.9 ,identity;q=0.5",
    "\tchunked ,\tidentity;q=0.5",
    "chunked;q=abc",
    "chunked;q=",
    "identity;q=abc, chunked;q=0.5",
    "chunked;q=1.5, identity",
    "chunked;Q=0, identity;q=0.5",
    "chunked;foo=bar;q=0.5, identity;q=0.7",
    "chunked;q=0.5;q=0.9, identity;q=0.7",
    "chunkedx, identityy",
    "x-chunked",
    "deflate;q=0.5",
    "identity;q=1.000, chunked;q=0.999",
    "gzip;q=NaN, chunked;q=0.5",
    "chunked;q=NaN, identity;q=NaN",
    "identity;q=inf, chunked;q=0.5",
];

#[derive(Clone, Debug)]
pub struct Case {
    pub version: (u8, u8),
    pub status: u16,
    pub len: Option<usize>, // declared length (None = unknown)
    pub body_len: usize,    // actual number of body bytes
    pub threshold: Option<usize>,
    pub te: Option<String>,
    pub te_name: &'static str,
    pub head: bool,
    pub upgrade: bool,
    pub max_piece: usize,
}

impl Case {
    pub fn to_json(&self) -> J {
        J::obj()
            .set("version", J::s(format!("{}.{}", self.version.0, self.version.1)))
            .set("status", J::u(self.status as usize))
            .set("declared_len", self.len.map(J::u).unwrap_or(J::Null))
            .set("body_len", J::u(self.body_len))
            .set("threshold", self.threshold.map(|t| J::S(t.to_string())).unwrap_or(J::s("unset(32768)")))
            .set("te", self.te.as_ref().map(J::s).unwrap_or(J::Null))
            .set("te_header_name", J::s(self.te_name))
            .set("head", J::B(self.head))
            .set("upgrade", J::B(self.upgrade))
    }
    pub fn thr(&self) -> usize {
        self.threshold.unwrap_or(32768)
    }
}

pub struct Outcome {
    pub out: Vec<u8>,
    pub result: Result<(), String>,
}

pub fn execute(c: &Case, tag: u64, extra_headers: &[(String, String)]) -> Outcome {
    let body = pattern(tag, c.body_len);
    let reader = PieceReader { data: body, pos: 0, rng: Rng::new(tag ^ 77), max_piece: c.max_piece };
    let hdrs: Vec<Header> = extra_headers
        .iter()
        .map(|(n, v)| Header::from_bytes(n.as_bytes(), v.as_bytes()).unwrap())
        .collect();
    // construction route (by the case tag): the threshold is a property of the response however it
    // is built, so it has to survive the builder calls that follow it (boxed, with_data,
    // with_status_code, with_header) and can be set after boxing as well
    let route = (tag >> 9) % 6;
    let resp: tiny_http::ResponseBox = match (route, c.threshold) {
        (1, Some(t)) => Response::new(StatusCode(c.status), hdrs, reader, c.len, None).with_chunked_threshold(t).boxed(),
        (2, Some(t)) => Response::new(StatusCode(c.status), hdrs, reader, c.len, None).boxed().with_chunked_threshold(t),
        (3, Some(t)) => Response::new(StatusCode(599), hdrs, std::io::empty(), Some(0), None)
            .with_chunked_threshold(t)
            .with_status_code(c.status)
            .with_data(reader, c.len)
            .boxed(),
        (4, Some(t)) => Response::new(StatusCode(598), hdrs, reader, c.len, None)
            .with_chunked_threshold(t)
            .boxed()
            .with_status_code(c.status)
            .boxed(),
        _ => {
            let mut r = Response::new(StatusCode(c.status), hdrs, reader, c.len, None);
            if let Some(t) = c.threshold {
                r = r.with_chunked_threshold(t);
            }
            return finish_print(r, c);
        }
    };
    finish_print(resp, c)
}

fn finish_print<R: Read>(resp: Response<R>, c: &Case) -> Outcome {
    let mut rq_headers = Vec::new();
    // an unrelated header before and after, so that "first TE header" is really searched for
    rq_headers.push(Header::from_bytes(&b"Host"[..], &b"x"[..]).unwrap());
    if let Some(te) = &c.te {
        rq_headers.push(Header::from_bytes(c.te_name.as_bytes(), te.as_bytes()).unwrap());
    }
    rq_headers.push(Header::from_bytes(&b"Accept"[..], &b"*/*"[..]).unwrap());
    let mut out = Vec::new();
    let r = std::panic::catch_unwind(std::panic::AssertUnwindSafe(|| {
        resp.raw_print(
            &mut out,
            HTTPVersion(c.version.0, c.version.1),
            &rq_headers,
            c.head,
            if c.upgrade { Some("vproto") } else { None },
        )
    }));
    let result = match r {
        Ok(r) => r.map_err(|e| e.to_string()),
        Err(_) => {
            let p = crate::env::panics_take();
            Err(format!("PANIC in raw_print: {}", p.last().map(|x| format!("{} at {}", x.message, x.location)).unwrap_or_default()))
        }
    };
    Outcome { out, result }
}

/// Observed framing decision: Ok(Some(coding)) / Ok(None) = neither header / Err = malformed.
pub fn observed_coding(r: &httpc::Resp, body_len: usize) -> Result<Option<Coding>, String> {
    let te = r.header_count("Transfer-Encoding");
    let cl = r.header_count("Content-Length");
    match (te, cl) {
        (0, 0) => Ok(None),
        (1, 0) => {
            let v = r.header("Transfer-Encoding").unwrap();
            if v.eq_ignore_ascii_case("chunked") {
                Ok(Some(Coding::Chunked))
            } else {
                Err(format!("Transfer-Encoding value {:?}", v))
            }
        }
        (0, 1) => {
            let v = r.header("Content-Length").unwrap();
            if v == body_len.to_string() {
                Ok(Some(Coding::Identity))
            } else {
                Err(format!("Content-Length {:?} but the body has {} bytes", v, body_len))
            }
        }
        _ => Err(format!("{} Transfer-Encoding and {} Content-Length headers", te, cl)),
    }
}

pub fn check(ctx: &Ctx, c: &Case, case_seed: u64, mode: &str) {
    crate::util::current_case(case_seed, mode);
    let o = execute(c, case_seed, &[]);
    let rep = &ctx.rep;
    if c.threshold.is_some() {
        // how the response was built (see `execute`): 0 and 5 = threshold set on the plain response
        rep.inc(["construction_route:plain", "construction_route:threshold-then-boxed", "construction_route:boxed-then-threshold", "construction_route:threshold-status-with_data-boxed", "construction_route:threshold-boxed-status-boxed", "construction_route:plain"][((case_seed >> 9) % 6) as usize]);
    }
    let adm = admissible_codings(c.version, c.status, c.te.as_deref(), c.len, c.thr());
    let branch = if c.upgrade {
        "upgrade"
    } else if c.version <= (1, 0) {
        "http<=1.0"
    } else if c.status < 200 || c.status == 204 {
        "1xx/204"
    } else if adm.len() == 2 {
        "te-ambiguous"
    } else if c.te.is_some() && admissible_codings(c.version, c.status, None, c.len, c.thr()) != adm {
        "te-decides"
    } else if c.te.is_some() {
        "te-present-agrees-with-default"
    } else if c.len.is_none() {
        "length-unknown"
    } else if c.len.unwrap() >= c.thr() {
        "length>=threshold"
    } else {
        "length<threshold"
    };
    rep.inc(&format!("branch:{}", branch));
    // class of the TE value: sequence of (coding class, weight class) – the raw string of a random
    // TE value would make every random case "distinct"
    let te_class = c.te.as_ref().map(|t| {
        t.split(',')
            .map(|e| {
                let mut it = e.split(';');
                let n = it.next().unwrap_or("").trim().to_ascii_lowercase();
                let nc = match n.as_str() {
                    "chunked" => "C",
                    "identity" => "I",
                    "" => "-",
                    _ => "x",
                };
                let q: Vec<&str> = it.filter(|p| p.trim_start().to_ascii_lowercase().starts_with("q=")).collect();
                let qc = match q.first().map(|p| p.trim()[2..].trim().to_string()) {
                    None => "d".to_string(),
                    Some(v) => match v.parse::<f64>() {
                        Ok(x) if x.is_nan() => "nan".into(),
                        Ok(x) if x <= 0.0 => "0".into(),
                        Ok(x) if x >= 1.0 => "1".into(),
                        Ok(x) => format!("{:.1}", x),
                        Err(_) => "bad".into(),
                    },
                };
                format!("{}{}{}", nc, qc, if q.len() > 1 { "+" } else { "" })
            })
            .collect::<Vec<_>>()
            .join(",")
    });
    let sig = format!(
        "{:?}|{}|{:?}|{:?}|{:?}|{}|{}|{}",
        c.version,
        c.status,
        c.len.map(|l| (l as i128) - (c.thr() as i128)).map(|d| d.clamp(-2, 2)),
        c.threshold,
        te_class,
        c.te_name,
        c.head,
        c.upgrade
    );
    // two-element admissible sets are reported but not counted as non-trivial
    rep.eval(if adm.len() == 1 { Some(&sig) } else { None });

    let fail = |signature: &str, what: String| {
        rep.violation(Violation {
            signature: signature.to_string(),
            what,
            detail: J::obj()
                .set("case", c.to_json())
                .set("admissible", J::A(adm.iter().map(|a| J::s(format!("{:?}", a))).collect()))
                .set("output_head", J::bytes(&o.out[..o.out.len().min(600)])),
            case_seed,
            mode: mode.to_string(),
        });
    };

    if let Err(e) = &o.result {
        fail("C05/raw_print-error", format!("raw_print into a Vec failed: {}", e));
        return;
    }
    let (r, head_len) = match httpc::parse_head(&o.out) {
        Ok(Some(x)) => x,
        Ok(None) => {
            fail("C05/head-incomplete", "output has no complete header block".into());
            return;
        }
        Err(e) => {
            fail("C05/head-malformed", format!("output head does not parse: {}", e));
            return;
        }
    };
    let obs = match observed_coding(&r, c.body_len) {
        Ok(x) => x,
        Err(e) => {
            fail("C05/framing-headers", format!("framing headers inconsistent: {}", e));
            return;
        }
    };
    if c.upgrade {
        if obs.is_some() {
            fail("C05/upgrade-has-framing", format!("upgrade response carries framing header ({:?})", obs));
        }
        return;
    }
    match obs {
        None => fail("C05/no-framing", "response carries neither Content-Length nor Transfer-Encoding".into()),
        Some(cod) => {
            if !adm.contains(&cod) {
                fail(
                    &format!("C05/selection/{}", branch),
                    format!("selected {:?}, statement admits {:?}", cod, adm),
                );
                return;
            }
            // the body must really be coded the way the headers say
            let bodiless = c.head || (100..200).contains(&c.status) || c.status == 204 || c.status == 304;
            if !bodiless {
                let body = &o.out[head_len..];
                let want = pattern(case_seed, c.body_len);
                match cod {
                    Coding::Identity => {
                        if body != &want[..] {
                            fail("C05/identity-body-mismatch", "identity body differs from the data".into());
                        }
                    }
                    Coding::Chunked => match httpc::decode_chunked(body) {
                        Ok(Some((data, _, used))) => {
                            if data != want || used != body.len() {
                                fail("C05/chunked-body-mismatch", "chunked body decodes to different data".into());
                            }
                        }
                        Ok(None) => fail("C05/chunked-body-truncated", "chunked body not terminated".into()),
                        Err(e) => fail("C05/chunked-body-malformed", format!("chunked body: {}", e)),
                    },
                }
            }
        }
    }
    if rep.want_sample() && (case_seed % 97 == 0) {
        rep.sample(|| {
            c.to_json()
                .set("admissible", J::A(adm.iter().map(|a| J::s(format!("{:?}", a))).collect()))
                .set("observed", J::s(format!("{:?}", obs)))
        });
    }
}

fn lens_for(thr: Option<usize>) -> Vec<Option<usize>> {
    let t = thr.unwrap_or(32768);
    let mut v: Vec<Option<usize>> = vec![None, Some(0)];
    if t == usize::MAX {
        v.push(Some(100));
        v.push(Some(40000));
    } else {
        if t >= 2 {
            v.push(Some(t - 1));
        }
        if t >= 1 {
            v.push(Some(t));
        }
        v.push(Some(t + 1));
    }
    v
}

pub fn grid() -> Vec<Case> {
    let mut cases = Vec::new();
    let versions = [(0u8, 9u8), (1, 0), (1, 1)];
    let statuses = [100u16, 101, 199, 200, 204, 304, 404, 500, 299];
    let thresholds = [None, Some(0usize), Some(1), Some(7), Some(usize::MAX)];
    let mut tes: Vec<Option<&str>> = vec![None];
    tes.extend(TE_VALUES.iter().map(|s| Some(*s)));
    for v in versions {
        for st in statuses {
            for thr in thresholds {
                for len in lens_for(thr) {
                    for (ti, te) in tes.iter().enumerate() {
                        for head in [false, true] {
                            for upgrade in [false, true] {
                                let unknown_len_body = match thr {
                                    None => 5000,
                                    Some(usize::MAX) => 9000,
                                    Some(t) => t + 3,
                                };
                                cases.push(Case {
                                    version: v,
                                    status: st,
                                    len,
                                    body_len: len.unwrap_or(unknown_len_body),
                                    threshold: thr,
                                    te: te.map(|s| s.to_string()),
                                    te_name: ["TE", "te", "Te"][ti % 3],
                                    head,
                                    upgrade,
                                    max_piece: [1usize, 7, 1000, 70000][(ti + st as usize) % 4],
                                });
                            }
                        }
                    }
                }
            }
        }
    }
    cases
}

fn random_te(rng: &mut Rng) -> String {
    let names = ["chunked", "identity", "CHUNKED", "Identity", "gzip", "trailers", "deflate", "x", "chunkedd"];
    let qs = ["", ";q=1", ";q=0.9", ";q=0.5", ";q=0.001", ";q=0", ";q=0.0", ";q=1.0", ";q=abc", ";q=", ";Q=0.3", ";q=0.75", ";x=y", " ; q=0.3", ";q=0.25;x=1", ";q=NaN", ";q=inf", ";q=-1", ";q=1e9"];
    let n = rng.range(1, 4);
    let mut parts = Vec::new();
    for _ in 0..n {
        let mut p = String::new();
        if rng.chance(1, 5) {
            p.push(' ');
        }
        p.push_str(rng.pick_s(&names));
        p.push_str(rng.pick_s(&qs));
        if rng.chance(1, 6) {
            p.push(' ');
        }
        parts.push(p);
    }
    parts.join(if rng.chance(1, 2) { "," } else { ", " })
}

pub fn random_case(rng: &mut Rng) -> Case {
    let thresholds = [None, Some(0usize), Some(1), Some(7), Some(100), Some(8192), Some(usize::MAX)];
    let thr = *rng.pick(&thresholds);
    let lens = lens_for(thr);
    let len = *rng.pick(&lens);
    let te = if rng.chance(1, 6) { None } else { Some(random_te(rng)) };
    Case {
        version: *rng.pick(&[(0u8, 9u8), (1, 0), (1, 1), (1, 1), (1, 1)]),
        status: *rng.pick(&[100u16, 101, 102, 199, 200, 200, 200, 201, 204, 206, 299, 301, 304, 400, 404, 418, 500, 503, 599, 999]),
        len,
        body_len: len.unwrap_or_else(|| rng.below(20000)),
        threshold: thr,
        te,
        te_name: *rng.pick(&["TE", "te", "Te", "tE"]),
        head: rng.chance(1, 4),
        upgrade: rng.chance(1, 10),
        max_piece: *rng.pick(&[1usize, 3, 100, 8192, 100000]),
    }
}

pub fn run(ctx: &Ctx) {
    if let Some((cs, mode, _)) = &ctx.replay {
        if mode.starts_with("grid:") {
            let idx: usize = mode[5..].parse().unwrap();
            let g = grid();
            check(ctx, &g[idx], *cs, mode);
        } else {
            let mut rng = Rng::new(*cs);
            let c = random_case(&mut rng);
            check(ctx, &c, *cs, "random");
        }
        return;
    }
    let g = grid();
    let mut done = 0u64;
    let mut complete = true;
    for (i, c) in g.iter().enumerate() {
        if i % ctx.nshards != ctx.shard {
            continue;
        }
        // the grid is always run completely; the budget only guards against a pathological slowdown
        if ctx.elapsed_ms() > ctx.budget_ms * 20 + 120_000 {
            complete = false;
            break;
        }
        check(ctx, c, crate::util::mix(0xC05, i as u64, 0), &format!("grid:{}", i));
        done += 1;
    }
    ctx.rep.set_extra("grid_size", J::u(g.len()));
    ctx.rep.set_extra("grid_done_this_shard", J::I(done as i64));
    ctx.rep.set_extra("grid_complete_this_shard", J::B(complete));
    // random TE strings and parameter combinations
    let mut idx = 0u64;
    while ctx.time_left() {
        let cs = ctx.case_seed(idx);
        let mut rng = Rng::new(cs);
        let c = random_case(&mut rng);
        check(ctx, &c, cs, "random");
        ctx.rep.inc("random_cases");
        idx += 1;
    }
}
