//! C04 – every response is a well-formed, self-delimiting message with exactly the body.
//! Pure engine (raw_print into a Vec, parsed by the independent client parser) plus a native
//! part through real connections (HEAD vs GET, followed by a second request) in `pconv`.

use crate::httpc::{self, Parse};
use crate::p05::{execute, random_case, Case};
use crate::report::Violation;
use crate::util::{pattern, Rng, J};
use crate::Ctx;

fn header_pool(rng: &mut Rng) -> Vec<(String, String)> {
    let names = [
        "X-A", "x-b", "Content-Type", "Cache-Control", "X-Long", "Set-Cookie", "ETag", "Location", "X-Empty",
        // names the library keeps for itself: whatever their letter case they must not end up next
        // to (or in conflict with) the framing the library generates
        "transfer-encoding", "TRANSFER-ENCODING", "connection", "Trailer", "upgrade",
    ];
    let mut v = Vec::new();
    for _ in 0..rng.below(5) {
        let n = *rng.pick(&names);
        let val = match n {
            "X-Long" => "v".repeat(rng.range(100, 3000)),
            "X-Empty" => String::new(),
            "Content-Type" => "text/plain; charset=UTF-8".to_string(),
            "transfer-encoding" | "TRANSFER-ENCODING" => ["chunked", "gzip", "identity"][rng.below(3)].to_string(),
            "connection" => ["close", "keep-alive", "upgrade"][rng.below(3)].to_string(),
            "Trailer" => "X-T".to_string(),
            "upgrade" => "vproto".to_string(),
            _ => format!("val{}: with, colon;and=params {}", rng.below(1000), rng.below(10)),
        };
        v.push((n.to_string(), val));
    }
    v
}

pub fn gen_case(rng: &mut Rng) -> (Case, Vec<(String, String)>) {
    let mut c = random_case(rng);
    c.upgrade = false;
    c.version = *rng.pick(&[(1u8, 0u8), (1, 1), (1, 1)]);
    let lens = [0usize, 1, 100, 8191, 8192, 8193, 32767, 32768, 32769, 65535, 65536, 65537, 100000, 140000];
    let thr_choices = [0usize, 1, 2, 3, 4, 5, 6];
    c.body_len = if rng.chance(1, 3) { rng.below(3000) } else { *rng.pick(&lens) };
    c.len = if rng.chance(2, 3) { Some(c.body_len) } else { None };
    c.threshold = match *rng.pick(&thr_choices) {
        0 => None,
        1 => Some(0),
        2 => Some(1),
        3 => Some(c.body_len.saturating_sub(1)),
        4 => Some(c.body_len),
        5 => Some(c.body_len + 1),
        _ => Some(usize::MAX),
    };
    c.max_piece = *rng.pick(&[1usize, 2, 7, 100, 1024, 8192, 8193, 200000]);
    if c.max_piece == 1 && c.body_len > 40000 {
        c.max_piece = 13;
    }
    let h = header_pool(rng);
    (c, h)
}

pub fn check_pure(ctx: &Ctx, c: &Case, hdrs: &[(String, String)], case_seed: u64) {
    let rep = &ctx.rep;
    crate::util::current_case(case_seed, "pure");
    let o = execute(c, case_seed, hdrs);
    let bodiless = c.head || (100..200).contains(&c.status) || c.status == 204 || c.status == 304;
    let status_class = match c.status {
        100..=199 => "1xx",
        200 => "200",
        204 => "204",
        304 => "304",
        201..=299 => "2xx",
        300..=399 => "3xx",
        400..=499 => "4xx",
        500..=599 => "5xx",
        _ => "unregistered",
    };
    let len_bucket = match c.body_len {
        0 => "0",
        1..=1023 => "<1k",
        1024..=8191 => "<8192",
        8192 => "8192",
        8193..=32767 => "<32768",
        32768 => "32768",
        _ => ">32768",
    };
    let thr_class = match c.threshold {
        None => "unset".to_string(),
        Some(usize::MAX) => "max".to_string(),
        Some(t) => format!("{}", (t as i128 - c.body_len as i128).clamp(-2, 2)),
    };
    let te_class = match c.te.as_deref() {
        None => "none",
        Some(t) if t.to_ascii_lowercase().contains("chunked") && t.to_ascii_lowercase().contains("identity") => "both",
        Some(t) if t.to_ascii_lowercase().contains("chunked") => "chunked",
        Some(t) if t.to_ascii_lowercase().contains("identity") => "identity",
        _ => "other",
    };
    let sig = format!(
        "{}|{}|{}|{}|{:?}|{}|{}|{}",
        status_class,
        len_bucket,
        c.len.is_some(),
        thr_class,
        c.version,
        c.head,
        te_class,
        c.max_piece.min(9000)
    );
    rep.eval(Some(&sig));

    let fail = |signature: &str, what: String| {
        rep.violation(Violation {
            signature: signature.to_string(),
            what,
            detail: J::obj()
                .set("case", c.to_json())
                .set("app_headers", J::A(hdrs.iter().map(|(n, v)| J::s(format!("{}: {}", n, crate::util::esc(v.as_bytes(), 60)))).collect()))
                .set("output", J::bytes(&o.out)),
            case_seed,
            mode: "pure".to_string(),
        });
    };
    if let Err(e) = &o.result {
        fail("C04/raw_print-error", format!("raw_print into a Vec failed: {}", e));
        return;
    }
    match httpc::parse_response(&o.out, c.head) {
        Parse::Bad(e) => fail("C04/malformed", format!("not a well-formed message: {}", e)),
        Parse::Incomplete => fail("C04/truncated", "message is incomplete (client would wait for more bytes)".into()),
        Parse::UntilClose(_, _) => fail(
            "C04/needs-close",
            "message end can only be found by connection close (no usable framing)".into(),
        ),
        Parse::Done(r, used) => {
            if r.status != c.status {
                fail("C04/status", format!("client recovers status {} instead of {}", r.status, c.status));
                return;
            }
            if used != o.out.len() {
                let sigs = if bodiless { "C04/body-bytes-for-bodiless" } else { "C04/trailing-bytes" };
                fail(sigs, format!("{} bytes follow the end of the message", o.out.len() - used));
                return;
            }
            if bodiless {
                rep.inc("bodiless");
                if !r.body.is_empty() {
                    fail("C04/body-bytes-for-bodiless", "body bytes present".into());
                }
            } else {
                let want = pattern(case_seed, c.body_len);
                if r.body != want {
                    fail(
                        "C04/body-mismatch",
                        format!("client recovers {} body bytes, application gave {}", r.body.len(), want.len()),
                    );
                    return;
                }
                if matches!(r.framing, httpc::Framing::Chunked(_)) && c.version <= (1, 0) {
                    fail(
                        "C04/chunked-for-http10-client",
                        format!(
                            "the response to an HTTP/{}.{} request is framed with Transfer-Encoding: chunked, which such a client cannot delimit",
                            c.version.0, c.version.1
                        ),
                    );
                    return;
                }
                match &r.framing {
                    httpc::Framing::Chunked(_) => rep.inc("chunked"),
                    httpc::Framing::ContentLength(_) => {
                        if c.len.is_none() {
                            rep.inc("identity-buffered-undeclared")
                        } else {
                            rep.inc("identity")
                        }
                    }
                    _ => {}
                }
            }
            // application headers must come through intact (no CR/LF were given)
            for (n, v) in hdrs {
                if n.eq_ignore_ascii_case("content-type") {
                    continue; // replacement policy is C19's business
                }
                if ["transfer-encoding", "connection", "trailer", "upgrade"].iter().any(|r| n.eq_ignore_ascii_case(r)) {
                    // reserved: must not come through at all (a Transfer-Encoding of the
                    // application's next to the library's framing makes the message ambiguous)
                    // (the library itself sends at most one such field, with the value "chunked",
                    // also on a bodiless answer to HEAD)
                    let tes: Vec<&String> = r.headers.iter().filter(|(rn, _)| rn.eq_ignore_ascii_case("transfer-encoding")).map(|(_, rv)| rv).collect();
                    if n.eq_ignore_ascii_case("transfer-encoding") && (tes.len() >= 2 || tes.iter().any(|t| !t.eq_ignore_ascii_case("chunked"))) {
                        fail(
                            "C04/application-transfer-encoding-sent",
                            format!("Transfer-Encoding fields on the wire: {:?}; the application's {:?}: {} was sent along with the library's framing", tes, n, v),
                        );
                        break;
                    }
                    continue;
                }
                let found = r.headers.iter().any(|(rn, rv)| rn == n && rv == v.trim_matches(|c| c == ' ' || c == '\t'));
                if !found {
                    fail("C04/app-header-lost", format!("application header {:?} not recovered", n));
                    break;
                }
            }
            if rep.want_sample() && case_seed % 1013 == 0 {
                rep.sample(|| {
                    c.to_json()
                        .set("framing", J::s(format!("{:?}", r.framing).chars().take(80).collect::<String>()))
                        .set("wire_len", J::u(used))
                });
            }
        }
    }
}

/// Responses built by the convenience constructors from text / bytes that are not plain ASCII:
/// the message must delimit exactly the bytes given (a length counted in characters would not).
fn check_ctor(ctx: &Ctx, case_seed: u64) {
    use tiny_http::{HTTPVersion, Response};
    let rep = &ctx.rep;
    let mut rng = Rng::new(case_seed ^ 0xC70);
    let alphabet = ["a", "Z", " ", "é", "ß", "€", "漢", "😀", "\u{a0}", "\n", "0"];
    let n = *rng.pick(&[0usize, 1, 5, 40, 3000]);
    let text: String = (0..n).map(|_| *rng.pick(&alphabet)).collect();
    let version = *rng.pick(&[(1u8, 0u8), (1, 1)]);
    let from_data = rng.chance(1, 2);
    crate::util::current_case(case_seed, "ctor");
    let mut out = Vec::new();
    let r = std::panic::catch_unwind(std::panic::AssertUnwindSafe(|| {
        if from_data {
            Response::from_data(text.clone().into_bytes()).raw_print(&mut out, HTTPVersion(version.0, version.1), &[], false, None)
        } else {
            Response::from_string(text.clone()).raw_print(&mut out, HTTPVersion(version.0, version.1), &[], false, None)
        }
    }));
    rep.eval(Some(&format!("ctor|{}|n{}|v{}", from_data, n, version.1)));
    rep.inc("constructor_cases_with_non_ascii_text");
    let fail = |signature: &str, what: String| {
        rep.violation(Violation {
            signature: signature.to_string(),
            what,
            detail: J::obj().set("text", J::S(text.chars().take(80).collect())).set("bytes", J::u(text.len())).set("chars", J::u(text.chars().count())).set("output", J::bytes(&out)),
            case_seed,
            mode: "ctor".to_string(),
        });
    };
    if !matches!(r, Ok(Ok(()))) {
        let _ = crate::env::panics_take();
        fail("C04/raw_print-error", "printing a from_string/from_data response failed".into());
        return;
    }
    match httpc::parse_response(&out, false) {
        Parse::Done(resp, used) => {
            if used != out.len() {
                fail("C04/trailing-bytes", format!("{} bytes follow the end of the message built from a {}-byte text of {} characters", out.len() - used, text.len(), text.chars().count()));
            } else if resp.body != text.as_bytes() {
                fail("C04/body-mismatch", format!("client recovers {} body bytes, the text has {}", resp.body.len(), text.len()));
            }
        }
        Parse::Bad(e) => fail("C04/malformed", format!("not a well-formed message: {}", e)),
        Parse::Incomplete => fail("C04/truncated", "message is incomplete".into()),
        Parse::UntilClose(_, _) => fail("C04/needs-close", "message end can only be found by connection close".into()),
    }
}

pub fn run(ctx: &Ctx) {
    if let Some((cs, mode, _)) = &ctx.replay {
        if mode == "pure" {
            let mut rng = Rng::new(*cs);
            let (c, h) = gen_case(&mut rng);
            check_pure(ctx, &c, &h, *cs);
        } else if mode == "ctor" {
            check_ctor(ctx, *cs);
        } else {
            crate::pconv::run(ctx);
        }
        return;
    }
    // half of the shards run the pure engine, the other half the native HEAD/GET conversations
    if ctx.shard % 2 == 0 {
        let mut idx = 0u64;
        while ctx.time_left() {
            let cs = ctx.case_seed(idx);
            let mut rng = Rng::new(cs);
            let (c, h) = gen_case(&mut rng);
            check_pure(ctx, &c, &h, cs);
            if idx % 32 == 7 {
                check_ctor(ctx, cs);
            }
            idx += 1;
        }
        ctx.rep.counts.add("pure_cases", idx);
    } else {
        crate::pconv::run(ctx);
    }
}
