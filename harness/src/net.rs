//! Client side of the monitors: a raw socket client (TCP or UNIX) with a background reader,
//! incremental response parsing with arrival times, half-close / close / reset.

use crate::httpc::{self, Parse, Resp};
use crate::util::now_ns;
use std::io::{Read, Write};
use std::net::{Shutdown, SocketAddr, TcpStream};
use std::os::unix::io::AsRawFd;
use std::os::unix::net::UnixStream;
use std::path::PathBuf;
use std::sync::{Arc, Condvar, Mutex};
use std::time::{Duration, Instant};

#[derive(Clone, Debug)]
pub enum Addr {
    Tcp(SocketAddr),
    Unix(PathBuf),
}

pub enum CStream {
    Tcp(TcpStream),
    Unix(UnixStream),
}

impl CStream {
    pub fn connect(a: &Addr) -> std::io::Result<CStream> {
        match a {
            Addr::Tcp(sa) => {
                let s = TcpStream::connect(sa)?;
                s.set_nodelay(true)?;
                Ok(CStream::Tcp(s))
            }
            Addr::Unix(p) => Ok(CStream::Unix(UnixStream::connect(p)?)),
        }
    }
    pub fn try_clone(&self) -> std::io::Result<CStream> {
        Ok(match self {
            CStream::Tcp(s) => CStream::Tcp(s.try_clone()?),
            CStream::Unix(s) => CStream::Unix(s.try_clone()?),
        })
    }
    pub fn shutdown(&self, how: Shutdown) -> std::io::Result<()> {
        match self {
            CStream::Tcp(s) => s.shutdown(how),
            CStream::Unix(s) => s.shutdown(how),
        }
    }
    pub fn local_addr(&self) -> Option<SocketAddr> {
        match self {
            CStream::Tcp(s) => s.local_addr().ok(),
            CStream::Unix(_) => None,
        }
    }
    pub fn local_port(&self) -> u16 {
        self.local_addr().map(|a| a.port()).unwrap_or(0)
    }
    pub fn fd(&self) -> i32 {
        match self {
            CStream::Tcp(s) => s.as_raw_fd(),
            CStream::Unix(s) => s.as_raw_fd(),
        }
    }
    /// SO_LINGER {on, 0}: the following close sends RST instead of FIN (TCP only).
    pub fn set_linger0(&self) {
        let l = libc::linger { l_onoff: 1, l_linger: 0 };
        unsafe {
            libc::setsockopt(
                self.fd(),
                libc::SOL_SOCKET,
                libc::SO_LINGER,
                &l as *const _ as *const libc::c_void,
                std::mem::size_of::<libc::linger>() as libc::socklen_t,
            );
        }
    }
    pub fn set_read_timeout(&self, d: Option<Duration>) {
        match self {
            CStream::Tcp(s) => {
                let _ = s.set_read_timeout(d);
            }
            CStream::Unix(s) => {
                let _ = s.set_read_timeout(d);
            }
        }
    }
}

impl Read for CStream {
    fn read(&mut self, buf: &mut [u8]) -> std::io::Result<usize> {
        match self {
            CStream::Tcp(s) => s.read(buf),
            CStream::Unix(s) => s.read(buf),
        }
    }
}

impl Write for CStream {
    fn write(&mut self, buf: &[u8]) -> std::io::Result<usize> {
        match self {
            CStream::Tcp(s) => s.write(buf),
            CStream::Unix(s) => s.write(buf),
        }
    }
    fn flush(&mut self) -> std::io::Result<()> {
        Ok(())
    }
}

#[derive(Clone, Debug, Default)]
pub struct RecvState {
    pub buf: Vec<u8>,
    /// (arrival time, buffer length after this read)
    pub arrivals: Vec<(u64, usize)>,
    pub eof: bool,
    pub rst: bool,
    pub err: Option<String>,
    pub t_end: u64,
}

impl RecvState {
    pub fn ended(&self) -> bool {
        self.eof || self.rst || self.err.is_some()
    }
    /// arrival time of the byte at `off` (time of the read that delivered it)
    pub fn arrival_of(&self, off: usize) -> u64 {
        for (t, end) in &self.arrivals {
            if off < *end {
                return *t;
            }
        }
        self.t_end
    }
}

#[derive(Clone, Copy, Debug, PartialEq, Eq)]
pub enum End {
    Eof,
    Rst,
    Err,
    /// still open when we stopped looking
    Open,
}

pub struct Client {
    pub stream: Option<CStream>,
    pub st: Arc<(Mutex<RecvState>, Condvar)>,
    reader: Option<std::thread::JoinHandle<()>>,
    /// parse position in the receive buffer
    pub parsed: usize,
    pub msgs: Vec<(Resp, u64)>,
    pub parse_error: Option<String>,
    pub finals: usize,
    pub interims: usize,
    pub sent: usize,
    pub send_err: Option<String>,
    pub port: u16,
    pub local: Option<SocketAddr>,
}

#[derive(Debug, Clone, PartialEq, Eq)]
pub enum Got {
    Msg,
    End(End),
    Timeout,
    Bad,
}

pub static CONNECTS: std::sync::atomic::AtomicU64 = std::sync::atomic::AtomicU64::new(0);

impl Client {
    pub fn connect(addr: &Addr) -> std::io::Result<Client> {
        let stream = CStream::connect(addr)?;
        CONNECTS.fetch_add(1, std::sync::atomic::Ordering::SeqCst);
        let port = stream.local_port();
        let local = stream.local_addr();
        let st = Arc::new((Mutex::new(RecvState::default()), Condvar::new()));
        let mut rs = stream.try_clone()?;
        let st2 = st.clone();
        let reader = crate::util::spawn_named("cr", move || {
            let mut buf = vec![0u8; 65536];
            loop {
                let r = rs.read(&mut buf);
                let t = now_ns();
                let (m, cv) = &*st2;
                let mut g = m.lock().unwrap();
                match r {
                    Ok(0) => {
                        g.eof = true;
                        g.t_end = t;
                        cv.notify_all();
                        break;
                    }
                    Ok(n) => {
                        g.buf.extend_from_slice(&buf[..n]);
                        let l = g.buf.len();
                        g.arrivals.push((t, l));
                        cv.notify_all();
                    }
                    Err(e) => {
                        if e.kind() == std::io::ErrorKind::Interrupted {
                            continue;
                        }
                        if e.kind() == std::io::ErrorKind::ConnectionReset {
                            g.rst = true;
                        } else {
                            g.err = Some(e.to_string());
                        }
                        g.t_end = t;
                        cv.notify_all();
                        break;
                    }
                }
            }
        });
        Ok(Client {
            stream: Some(stream),
            st,
            reader: Some(reader),
            parsed: 0,
            msgs: Vec::new(),
            parse_error: None,
            finals: 0,
            interims: 0,
            sent: 0,
            send_err: None,
            port,
            local,
        })
    }

    pub fn send(&mut self, b: &[u8]) -> bool {
        if let Some(s) = self.stream.as_mut() {
            match s.write_all(b) {
                Ok(()) => {
                    self.sent += b.len();
                    true
                }
                Err(e) => {
                    if self.send_err.is_none() {
                        self.send_err = Some(e.to_string());
                    }
                    false
                }
            }
        } else {
            false
        }
    }

    pub fn half_close(&mut self) {
        if let Some(s) = self.stream.as_ref() {
            let _ = s.shutdown(Shutdown::Write);
        }
    }

    /// Wait until `pred` holds on the receive state or the timeout expires.
    pub fn wait(&self, timeout: Duration, pred: impl Fn(&RecvState) -> bool) -> bool {
        let (m, cv) = &*self.st;
        let deadline = Instant::now() + timeout;
        let mut g = m.lock().unwrap();
        loop {
            if pred(&g) {
                return true;
            }
            let now = Instant::now();
            if now >= deadline {
                return false;
            }
            let (g2, _) = cv.wait_timeout(g, deadline - now).unwrap();
            g = g2;
        }
    }

    pub fn state(&self) -> RecvState {
        self.st.0.lock().unwrap().clone()
    }

    pub fn end_state(&self) -> End {
        let g = self.st.0.lock().unwrap();
        if g.eof {
            End::Eof
        } else if g.rst {
            End::Rst
        } else if g.err.is_some() {
            End::Err
        } else {
            End::Open
        }
    }

    /// Try to parse the next message; waits up to `timeout` for the bytes.
    /// `head`: the next *final* response answers a HEAD request.
    pub fn next_msg(&mut self, head: bool, timeout: Duration) -> Got {
        if self.parse_error.is_some() {
            return Got::Bad;
        }
        let deadline = Instant::now() + timeout;
        loop {
            let (res, ended, buflen, t_arr) = {
                let g = self.st.0.lock().unwrap();
                let slice = &g.buf[self.parsed..];
                let res = if slice.is_empty() { Parse::Incomplete } else { httpc::parse_response(slice, head) };
                (res, g.ended(), g.buf.len(), g.arrival_of(self.parsed))
            };
            match res {
                Parse::Done(r, used) => {
                    self.parsed += used;
                    if r.is_interim() {
                        self.interims += 1;
                    } else {
                        self.finals += 1;
                    }
                    self.msgs.push((r, t_arr));
                    return Got::Msg;
                }
                Parse::Bad(e) => {
                    self.parse_error = Some(format!("at offset {}: {}", self.parsed, e));
                    return Got::Bad;
                }
                Parse::UntilClose(mut r, head_len) => {
                    if ended {
                        let g = self.st.0.lock().unwrap();
                        r.body = g.buf[self.parsed + head_len..].to_vec();
                        r.wire_len = g.buf.len() - self.parsed;
                        self.parsed = g.buf.len();
                        drop(g);
                        self.finals += 1;
                        self.msgs.push((r, t_arr));
                        return Got::Msg;
                    }
                }
                Parse::Incomplete => {
                    if ended {
                        if buflen > self.parsed {
                            let g = self.st.0.lock().unwrap();
                            self.parse_error = Some(format!(
                                "stream ends inside a message at offset {}: {}",
                                self.parsed,
                                crate::util::esc(&g.buf[self.parsed..], 160)
                            ));
                            return Got::Bad;
                        }
                        return Got::End(self.end_state());
                    }
                }
            }
            let now = Instant::now();
            if now >= deadline {
                return Got::Timeout;
            }
            let seen = buflen;
            self.wait(deadline - now, |s| s.buf.len() > seen || s.ended());
        }
    }

    /// Parse messages until `n` final responses were seen in total (or end/timeout).
    pub fn await_finals(&mut self, n: usize, heads: &dyn Fn(usize) -> bool, timeout: Duration) -> Got {
        let deadline = Instant::now() + timeout;
        while self.finals < n {
            let left = deadline.saturating_duration_since(Instant::now());
            match self.next_msg(heads(self.finals), left) {
                Got::Msg => continue,
                other => return other,
            }
        }
        Got::Msg
    }

    /// Read on until the connection ends (EOF / reset) or the timeout expires, parsing messages.
    pub fn await_end(&mut self, heads: &dyn Fn(usize) -> bool, timeout: Duration) -> Got {
        let deadline = Instant::now() + timeout;
        loop {
            let left = deadline.saturating_duration_since(Instant::now());
            match self.next_msg(heads(self.finals), left) {
                Got::Msg => continue,
                other => return other,
            }
        }
    }

    /// Abortive close: RST (TCP), plain close on UNIX sockets.
    pub fn reset(&mut self) {
        if let Some(s) = self.stream.take() {
            s.set_linger0();
            // the reader thread holds a dup of the fd; the linger option is per socket, and the
            // RST is sent when the last descriptor closes: wake the reader by shutting down reads
            let _ = s.shutdown(Shutdown::Read);
            drop(s);
        }
        if let Some(h) = self.reader.take() {
            let _ = h.join();
        }
    }

    pub fn close(&mut self) {
        if let Some(s) = self.stream.take() {
            let _ = s.shutdown(Shutdown::Both);
            drop(s);
        }
        if let Some(h) = self.reader.take() {
            let _ = h.join();
        }
    }
}

impl Drop for Client {
    fn drop(&mut self) {
        self.close();
    }
}
