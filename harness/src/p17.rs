//! C17 – unblock releases exactly one receiver; timed / non-blocking receives keep bounds.
//! Four sub-workloads on the real server:
//!   A  c receivers blocked in recv, u <= c unblocks from several threads, p requests interleaved
//!   B  tokens and requests queued in a known order before a single receiver runs a seeded mix
//!      of the four receive calls; the results must equal a FIFO reference model
//!   C  free race of unblock / requests / mixed receivers, then quiescence: no token may stay
//!      queued while a receiver is blocked; b further unblocks release exactly the b receivers
//!   T  timing: empty-handed recv_timeout(T) returns within [T - 1.5 ms, 2T + slack], with
//!      stolen wake-ups; try_recv never blocks

use crate::alloc::lib;
use crate::env::Env;
use crate::net::Client;
use crate::p07::{receiver_loop, wind_down, Leave, Op, RecvScript, SafeQueueOps, Shared, LIB_PANICKED};
use crate::report::Violation;
use crate::util::{now_ns, sleep_us, spawn_named, CalWindow, Rng, J};
use crate::Ctx;
use std::sync::atomic::{AtomicBool, AtomicU64, AtomicUsize, Ordering};
use std::sync::{Arc, Mutex};
use std::time::{Duration, Instant};
use tiny_http::{Response, Server};

fn new_shared(n: usize) -> Arc<Shared> {
    Arc::new(Shared {
        delivered: Mutex::new(Vec::new()),
        log: Mutex::new(Vec::new()),
        stop: AtomicBool::new(false),
        alive: AtomicUsize::new(n),
        in_recv: AtomicUsize::new(0),
        empty_returns: AtomicUsize::new(0),
        unblocked_returns: AtomicUsize::new(0),
        foreign: AtomicUsize::new(0),
        strays: AtomicUsize::new(0),
        exit_on_unblock: AtomicBool::new(false),
        sent: AtomicUsize::new(0),
        client_trouble: AtomicUsize::new(0),
    })
}

fn log_tail(sh: &Shared, n: usize) -> J {
    let l = sh.log.lock().unwrap();
    let from = l.len().saturating_sub(n);
    J::A(l[from..].iter().map(|e| J::s(format!("{:>9} us {:>4} {}", e.t_ns / 1000, e.who, e.what))).collect())
}

fn wait_for(timeout: Duration, mut f: impl FnMut() -> bool) -> bool {
    let t = Instant::now();
    loop {
        if f() {
            return true;
        }
        if t.elapsed() > timeout {
            return false;
        }
        sleep_us(200);
    }
}

fn violation(ctx: &Ctx, sig: &str, what: String, detail: J, cs: u64, mode: &str) {
    ctx.rep.violation(Violation { signature: sig.to_string(), what, detail, case_seed: cs, mode: mode.to_string() });
}

// ---------------------------------------------------------------------------------------------
// A: blocked receivers, unblocks and requests

/// A receiver for sub-workload A: recv in a loop; exits on the first Err.
fn recv_until_unblocked(server: Arc<Server>, sh: Arc<Shared>, trial: u64, ridx: usize) {
    let who = format!("r{}", ridx);
    loop {
        sh.ev_pub(&who, "call recv".into());
        match lib(|| server.recv()) {
            Ok(rq) => {
                let url = rq.url().to_string();
                if let Some((t, c, i)) = parse(&url) {
                    if t == trial {
                        sh.delivered.lock().unwrap().push((c, i, ridx, now_ns()));
                        sh.ev_pub(&who, format!("got {}/{}", c, i));
                    } else {
                        sh.foreign.fetch_add(1, Ordering::SeqCst);
                    }
                }
                let _ = lib(|| rq.respond(Response::from_string("ok")));
            }
            Err(_) => {
                sh.unblocked_returns.fetch_add(1, Ordering::SeqCst);
                sh.ev_pub(&who, "recv returned Err (unblocked)".into());
                break;
            }
        }
    }
    sh.alive.fetch_sub(1, Ordering::SeqCst);
}

fn parse(url: &str) -> Option<(u64, usize, usize)> {
    let mut it = url.split('/');
    it.next()?;
    if it.next()? != "q" {
        return None;
    }
    let t = u64::from_str_radix(it.next()?, 16).ok()?;
    let c = it.next()?.parse().ok()?;
    let i = it.next()?.parse().ok()?;
    Some((t, c, i))
}

fn workload_a(ctx: &Ctx, env: &Env, rng: &mut Rng, cs: u64) {
    let rep = &ctx.rep;
    let server = env.server.clone();
    let trial = cs & 0xffff_ffff;
    let c = rng.range(1, 8);
    let u = rng.range(0, c);
    let p = rng.range(0, 10);
    let nthreads = rng.range(1, 3);
    let base_pushes = server.vsnap().pushes;
    let sh = new_shared(c);
    let mut rh = Vec::new();
    for i in 0..c {
        let (s, sh2) = (server.clone(), sh.clone());
        rh.push(spawn_named(&format!("rcv{}", i), move || recv_until_unblocked(s, sh2, trial, i)));
    }
    let pre_block = rng.chance(2, 3);
    if pre_block {
        // unblock issued *while* receivers block: wait until all c are inside recv
        wait_for(Duration::from_millis(500), || server.vsnap().blocked_pop == c);
    }
    let cal = CalWindow::open();
    // unblock threads and a client, racing
    let issued = Arc::new(AtomicUsize::new(0));
    let mut th = Vec::new();
    let per: Vec<usize> = (0..nthreads).map(|t| u / nthreads + if t < u % nthreads { 1 } else { 0 }).collect();
    for (t, n) in per.iter().enumerate() {
        let (s, sh2, issued, n) = (server.clone(), sh.clone(), issued.clone(), *n);
        let gaps: Vec<u64> = (0..n).map(|_| rng.range(0, 1500) as u64).collect();
        th.push(spawn_named(&format!("unb{}", t), move || {
            for g in gaps {
                sleep_us(g);
                sh2.ev_pub("unb", "unblock()".into());
                s.vunblock();
                issued.fetch_add(1, Ordering::SeqCst);
            }
        }));
    }
    let addr = env.addr.clone();
    let gaps: Vec<u64> = (0..p).map(|_| rng.range(0, 1200) as u64).collect();
    let sh3 = sh.clone();
    let cl = spawn_named("cl", move || {
        if p == 0 {
            return None;
        }
        let mut cl = match Client::connect(&addr) {
            Ok(c) => c,
            Err(_) => return None,
        };
        for (i, g) in gaps.iter().enumerate() {
            sleep_us(*g);
            sh3.ev_pub("c0", format!("send 0/{}", i));
            cl.send(format!("GET /q/{:x}/0/{} HTTP/1.1\r\nHost: h\r\n\r\n", trial, i).as_bytes());
        }
        // the connection stays open until the end of the trial; responses are not awaited here
        Some(cl)
    });
    for h in th {
        let _ = h.join();
    }
    // if u == c every receiver is gone and requests may legitimately stay queued
    let expect_all_delivered = u < c;
    let client_keepalive = cl.join().ok().flatten();
    // every request written must have reached the queue before the trial is judged and wound
    // down (a request still inside its connection thread would show up in the next trial)
    if client_keepalive.is_some() && !wait_for(Duration::from_millis(1500), || server.vsnap().pushes >= base_pushes + p) {
        rep.inconclusive("A: not every request reached the queue within 1.5 s");
        wind_down(&server, &sh, rh);
        return;
    }
    let ok = wait_for(Duration::from_millis(1500), || {
        sh.unblocked_returns.load(Ordering::SeqCst) >= u && (!expect_all_delivered || sh.delivered.lock().unwrap().len() >= p)
    });
    sleep_us(5000);
    let released = sh.unblocked_returns.load(Ordering::SeqCst);
    let del = sh.delivered.lock().unwrap().clone();
    let snap = server.vsnap();
    let healthy = cal.healthy(Duration::from_millis(150));
    let detail = || {
        J::obj()
            .set("receivers_blocked_in_recv", J::u(c))
            .set("unblock_calls", J::u(u))
            .set("unblock_threads", J::u(nthreads))
            .set("requests", J::u(p))
            .set("receivers_released", J::u(released))
            .set("requests_delivered", J::u(del.len()))
            .set("snapshot", J::s(format!("{:?}", snap)))
            .set("history_tail", log_tail(&sh, 100))
    };
    let mut verdict: Option<(&str, String)> = None;
    if released > u {
        verdict = Some(("C17/A/more-receivers-released-than-unblocks", format!("{} unblock calls released {} receivers", u, released)));
    } else if released < u {
        if !ok && !healthy {
            rep.inconclusive("A: receivers not released in time, calibrator unhealthy");
            wind_down(&server, &sh, rh);
            return;
        }
        // The anomaly is a token that stays queued while a receiver is blocked inside recv, or a
        // token that vanished although every remaining receiver is blocked inside recv. Receiver
        // threads that did not even get to call recv (starved harness threads) prove nothing.
        let remaining = c - released;
        if snap.tokens >= 1 && snap.blocked_pop >= 1 {
            verdict = Some((
                "C17/A/fewer-receivers-released-than-unblocks",
                format!("{} unblock calls released only {} of {} receivers: {} token(s) still queued while {} receiver(s) are blocked in recv", u, released, c, snap.tokens, snap.blocked_pop),
            ));
        } else if released + snap.tokens < u && snap.blocked_pop == remaining {
            verdict = Some((
                "C17/A/fewer-receivers-released-than-unblocks",
                format!("{} unblock calls released only {} of {} receivers and {} token(s) are queued: a token was lost (all {} remaining receivers are blocked in recv)", u, released, c, snap.tokens, remaining),
            ));
        } else {
            rep.inconclusive("A: receivers were not inside recv when the unblocks were counted (harness threads starved)");
            wind_down(&server, &sh, rh);
            return;
        }
    } else {
        let mut seen = std::collections::HashSet::new();
        for d in &del {
            if !seen.insert((d.0, d.1)) {
                verdict = Some(("C17/A/request-duplicated", format!("request {}/{} delivered twice", d.0, d.1)));
            }
        }
        if verdict.is_none() && expect_all_delivered && del.len() != p {
            if healthy {
                verdict = Some(("C17/A/request-discarded", format!("{} of {} requests delivered although {} receivers remained", del.len(), p, c - u)));
            } else {
                rep.inconclusive("A: requests missing, calibrator unhealthy");
                wind_down(&server, &sh, rh);
                return;
            }
        }
        if verdict.is_none() {
            // one receiver per connection order is not guaranteed with several receivers; with a
            // single remaining consumer it is
            if c - u == 1 && u == 0 {
                let idxs: Vec<usize> = del.iter().map(|d| d.1).collect();
                if idxs.windows(2).any(|w| w[0] >= w[1]) {
                    verdict = Some(("C17/A/request-reordered", format!("single receiver saw requests in order {:?}", idxs)));
                }
            }
        }
    }
    rep.inc("workload:A");
    rep.counts.add("A_unblocks_issued", u as u64);
    rep.counts.add("A_receivers_released", released as u64);
    rep.eval(Some(&format!("A|c{}|u{}|p{}|t{}|pre{}", c, u, p.min(3), nthreads, pre_block)));
    if let Some((sig, what)) = verdict {
        violation(ctx, sig, what, detail(), cs, "A");
    } else if rep.want_sample() && cs % 13 == 0 {
        rep.sample(|| detail().set("workload", J::s("A")));
    }
    wind_down(&server, &sh, rh);
    drop(client_keepalive);
}

// ---------------------------------------------------------------------------------------------
// B: known queue contents, sequential calls, FIFO reference model

fn workload_b(ctx: &Ctx, env: &Env, rng: &mut Rng, cs: u64) {
    let rep = &ctx.rep;
    let server = env.server.clone();
    let trial = cs & 0xffff_ffff;
    let n = rng.range(1, 8);
    // queue contents: true = token, false = request
    let items: Vec<bool> = (0..n).map(|_| rng.chance(1, 2)).collect();
    let nreq = items.iter().filter(|t| !**t).count();
    let mut cl = match Client::connect(&env.addr) {
        Ok(c) => c,
        Err(e) => {
            rep.inconclusive(&format!("connect: {}", e));
            return;
        }
    };
    let base = server.vsnap();
    if base.elems != 0 || base.tokens != 0 {
        rep.inconclusive("B: queue not empty at start");
        return;
    }
    let mut k = 0usize;
    let mut pushes = base.pushes;
    for t in &items {
        if *t {
            server.vunblock();
        } else {
            cl.send(format!("GET /q/{:x}/0/{} HTTP/1.1\r\nHost: h\r\n\r\n", trial, k).as_bytes());
            k += 1;
            pushes += 1;
            if !wait_for(Duration::from_millis(1500), || server.vsnap().pushes >= pushes) {
                rep.inconclusive("B: request did not reach the queue");
                return;
            }
        }
    }
    // reference model
    let mut model: std::collections::VecDeque<Option<usize>> = {
        let mut q = std::collections::VecDeque::new();
        let mut i = 0;
        for t in &items {
            if *t {
                q.push_back(None);
            } else {
                q.push_back(Some(i));
                i += 1;
            }
        }
        q
    };
    let mut calls = Vec::new();
    let mut verdict: Option<(String, String)> = None;
    let ncalls = n + rng.range(0, 3);
    for ci in 0..ncalls {
        // recv / iterator only when the model says it will not block
        let op = loop {
            let o = match rng.below(4) {
                0 => Op::Recv,
                1 => Op::IterNext,
                2 => Op::TryRecv,
                _ => Op::RecvTimeout(*rng.pick(&[0u64, 300, 1000, 3000])),
            };
            if model.is_empty() && matches!(o, Op::Recv | Op::IterNext) {
                continue;
            }
            break o;
        };
        let t0 = Instant::now();
        let r: Result<Option<tiny_http::Request>, ()> = match &op {
            Op::Recv | Op::IterNext => {
                // the model says the queue is not empty, so this returns at once on a correct
                // implementation; on a defective one it could block for ever: run it on a helper
                // thread under a watchdog
                let (tx, rx) = std::sync::mpsc::channel();
                let (srv, iter) = (server.clone(), op == Op::IterNext);
                let h = spawn_named("bcall", move || {
                    let r: Result<Option<tiny_http::Request>, ()> = if iter {
                        match lib(|| srv.incoming_requests().next()) {
                            Some(rq) => Ok(Some(rq)),
                            None => Err(()),
                        }
                    } else {
                        lib(|| srv.recv()).map(Some).map_err(|_| ())
                    };
                    let _ = tx.send(r);
                });
                match rx.recv_timeout(Duration::from_millis(1500)) {
                    Ok(r) => {
                        let _ = h.join();
                        r
                    }
                    Err(_) => {
                        let snap = server.vsnap();
                        calls.push(format!("#{} {:?} -> DID NOT RETURN within 1.5 s; queue snapshot {:?}", ci, op, snap));
                        if verdict.is_none() {
                            verdict = Some((
                                "C17/B/blocking-receive-found-queue-empty".into(),
                                format!(
                                    "call #{} {:?} blocked although the FIFO model still holds {} item(s): earlier calls removed more than one item each (snapshot {:?})",
                                    ci,
                                    op,
                                    model.len(),
                                    snap
                                ),
                            ));
                        }
                        server.vunblock();
                        let _ = h.join();
                        // drain a possibly left-over token of ours
                        let _ = server.try_recv().map(|r| r.map(|rq| rq.respond(Response::from_string("drained"))));
                        break;
                    }
                }
            }
            Op::RecvTimeout(us) => lib(|| server.recv_timeout(crate::p07::timeout_of(*us))).map_err(|_| ()),
            Op::TryRecv => lib(|| server.try_recv()).map_err(|_| ()),
        };
        let el = t0.elapsed();
        let exp = model.pop_front();
        let got = match r {
            Ok(Some(rq)) => {
                if parse(rq.url()).map(|x| x.0) != Some(trial) {
                    // not one of the requests this trial queued: something an earlier trial left
                    // on its way; the call sequence no longer matches the model's premise
                    let _ = lib(|| rq.respond(Response::from_string("stray")));
                    rep.inconclusive("B: a request of an earlier trial arrived during the call sequence");
                    return;
                }
                let id = parse(rq.url()).map(|x| x.2);
                let _ = lib(|| rq.respond(Response::from_string("ok")));
                format!("request {:?}", id)
            }
            Ok(None) => "empty".to_string(),
            Err(()) => "error".to_string(),
        };
        let want = match (&exp, &op) {
            (Some(Some(i)), _) => format!("request {:?}", Some(*i)),
            (Some(None), Op::Recv) | (Some(None), Op::IterNext) => "error".to_string(),
            (Some(None), _) => "empty".to_string(),
            (None, _) => "empty".to_string(),
        };
        calls.push(format!("#{} {:?} -> {} ({} us)", ci, op, got, el.as_micros()));
        if got != want && verdict.is_none() {
            let what_exp = match exp {
                Some(None) => "a token at the queue head",
                Some(Some(_)) => "a request at the queue head",
                None => "an empty queue",
            };
            let sig = match (&exp, got.as_str()) {
                (Some(None), g) if g.starts_with("request") => "C17/B/token-skipped-request-returned",
                (Some(Some(_)), "empty") | (Some(Some(_)), "error") => "C17/B/request-not-returned",
                (Some(Some(_)), _) => "C17/B/wrong-request-returned",
                (None, _) => "C17/B/result-from-empty-queue",
                _ => "C17/B/token-result-mismatch",
            };
            verdict = Some((sig.to_string(), format!("call #{} {:?} with {} returned {}, the FIFO model says {}", ci, op, what_exp, got, want)));
        }
        // a token or a queued request must be returned at once
        if exp.is_some() && el > Duration::from_millis(400) && verdict.is_none() {
            verdict = Some(("C17/B/slow-return".into(), format!("call #{} {:?} took {} ms although the queue was not empty", ci, op, el.as_millis())));
        }
    }
    let _ = cl.await_finals(nreq.min(ncalls), &|_| false, Duration::from_millis(50));
    // drain what the calls did not consume
    for _ in 0..100 {
        let s = server.vsnap();
        if s.elems == 0 && s.tokens == 0 {
            break;
        }
        if let Ok(Some(rq)) = server.try_recv() {
            let _ = rq.respond(Response::from_string("drained"));
        }
    }
    rep.inc("workload:B");
    rep.eval(Some(&format!("B|{:?}|{}", items, ncalls)));
    let detail = J::obj()
        .set("queue_contents", J::s(format!("{:?}", items.iter().map(|t| if *t { "token" } else { "request" }).collect::<Vec<_>>())))
        .set("calls", J::A(calls.iter().map(J::s).collect()));
    if let Some((sig, what)) = verdict {
        violation(ctx, &sig, what, detail, cs, "B");
    } else if rep.want_sample() && cs % 17 == 0 {
        rep.sample(|| detail.set("workload", J::s("B")));
    }
}

// ---------------------------------------------------------------------------------------------
// C: free race, then quiescence

fn workload_c(ctx: &Ctx, env: &Env, rng: &mut Rng, cs: u64) {
    let rep = &ctx.rep;
    let server = env.server.clone();
    let trial = cs & 0xffff_ffff;
    let c = rng.range(2, 7);
    let touts = [0u64, 300, 900, 2000, 5000, 20000, u64::MAX];
    let mut scripts = Vec::new();
    let nblocking = rng.range(1, c);
    for i in 0..c {
        if i < nblocking {
            scripts.push(RecvScript { ops: vec![if rng.chance(1, 2) { Op::Recv } else { Op::IterNext }], leave: Leave::Loop, after_get: crate::p07::AfterGet::Continue });
        } else {
            let ops = (0..rng.range(1, 2)).map(|_| if rng.chance(1, 4) { Op::TryRecv } else { Op::RecvTimeout(*rng.pick(&touts)) }).collect();
            let leave = match rng.below(3) {
                0 => Leave::Loop,
                1 => Leave::Exit,
                _ => Leave::SleepMs(rng.range(5, 60) as u64),
            };
            scripts.push(RecvScript { ops, leave, after_get: crate::p07::AfterGet::Continue });
        }
    }
    let sh = new_shared(c);
    let base_pushes = server.vsnap().pushes;
    let mut rh = Vec::new();
    for (i, s) in scripts.iter().enumerate() {
        let (srv, sh2, s) = (server.clone(), sh.clone(), s.clone());
        rh.push(spawn_named(&format!("rcv{}", i), move || receiver_loop(srv, sh2, trial, i, s)));
    }
    let cal = CalWindow::open();
    let u = rng.range(1, 6);
    let p = rng.range(0, 12);
    let s2 = server.clone();
    let sh2 = sh.clone();
    let ugaps: Vec<u64> = (0..u).map(|_| rng.range(0, 6000) as u64).collect();
    let ut = spawn_named("unb", move || {
        for g in ugaps {
            sleep_us(g);
            sh2.ev_pub("unb", "unblock()".into());
            s2.vunblock();
        }
    });
    let addr = env.addr.clone();
    let gaps: Vec<u64> = (0..p).map(|_| rng.range(0, 5000) as u64).collect();
    let sh3 = sh.clone();
    let ct = spawn_named("cl", move || {
        if p == 0 {
            return None;
        }
        if let Ok(mut cl) = Client::connect(&addr) {
            for (i, g) in gaps.iter().enumerate() {
                sleep_us(*g);
                sh3.ev_pub("c0", format!("send 0/{}", i));
                cl.send(format!("GET /q/{:x}/0/{} HTTP/1.1\r\nHost: h\r\n\r\n", trial, i).as_bytes());
            }
            return Some(cl);
        }
        None
    });
    let _ = ut.join();
    let client_keepalive = ct.join().ok().flatten();
    // let the last request reach the queue
    if client_keepalive.is_some() && !wait_for(Duration::from_millis(1500), || server.vsnap().pushes >= base_pushes + p) {
        rep.inconclusive("C: not every request reached the queue within 1.5 s");
        wind_down(&server, &sh, rh);
        return;
    }
    sleep_us(1500);
    // quiescence: nothing is being pushed any more. A token (or request) queued while a receiver
    // is blocked in recv must not persist.
    let mut verdict: Option<(String, String)> = None;
    let t0 = Instant::now();
    let mut stuck_since: Option<Instant> = None;
    loop {
        let s = server.vsnap();
        let stuck = (s.tokens >= 1 || s.elems >= 1) && s.blocked_pop >= 1;
        if !stuck {
            if s.blocked_pop_timeout == 0 || t0.elapsed() > Duration::from_millis(60) {
                break;
            }
        } else {
            let since = *stuck_since.get_or_insert_with(Instant::now);
            if since.elapsed() > Duration::from_millis(300) {
                if !cal.healthy(Duration::from_millis(150)) {
                    rep.inconclusive("C: stuck state but calibrator unhealthy");
                    wind_down(&server, &sh, rh);
                    return;
                }
                let before = sh.unblocked_returns.load(Ordering::SeqCst) + sh.delivered.lock().unwrap().len();
                sh.ev_pub("mon", format!("stuck {:?} -> kick unblock()", s));
                server.vunblock();
                let moved = wait_for(Duration::from_millis(150), || {
                    sh.unblocked_returns.load(Ordering::SeqCst) + sh.delivered.lock().unwrap().len() > before
                });
                if moved {
                    verdict = Some((
                        if s.tokens >= 1 { "C17/C/token-queued-while-receiver-blocked".into() } else { "C17/C/request-queued-while-receiver-blocked".into() },
                        format!(
                            "{} token(s) and {} request(s) stayed queued for 300 ms while {} receiver(s) were blocked in recv(); a further unblock() got things moving",
                            s.tokens, s.elems, s.blocked_pop
                        ),
                    ));
                } else {
                    rep.inconclusive("C: stuck state did not resolve after the kick");
                    wind_down(&server, &sh, rh);
                    return;
                }
                break;
            }
        }
        if t0.elapsed() > Duration::from_secs(5) {
            break;
        }
        sleep_us(500);
    }
    // exactly b further unblocks release exactly the b receivers still blocked in recv
    if verdict.is_none() {
        // wait for timed receivers to settle, then count
        sleep_us(3000);
        let s = server.vsnap();
        let b = s.blocked_pop;
        let timed_alive = s.blocked_pop_timeout;
        if s.tokens == 0 && timed_alive == 0 && b >= 1 {
            // stop non-blocking receivers from interfering: they notice `stop` themselves only at
            // wind-down; here only receivers blocked in recv and sleeping ones exist. Sleeping
            // ones could wake up and take a token with a timed call, so this step is done only
            // when every non-blocking receiver has exited.
            let nonblocking_alive = sh.alive.load(Ordering::SeqCst) - b;
            if nonblocking_alive == 0 {
                let before = sh.unblocked_returns.load(Ordering::SeqCst);
                sh.exit_on_unblock.store(true, Ordering::SeqCst);
                for _ in 0..b {
                    server.vunblock();
                }
                let ok = wait_for(Duration::from_millis(1500), || sh.unblocked_returns.load(Ordering::SeqCst) >= before + b);
                sleep_us(3000);
                let after = sh.unblocked_returns.load(Ordering::SeqCst);
                let s2 = server.vsnap();
                rep.inc("C_final_release_checked");
                if after - before != b || s2.blocked_pop != 0 {
                    if !ok && !cal.healthy(Duration::from_millis(150)) {
                        rep.inconclusive("C: final release slow, calibrator unhealthy");
                    } else {
                        verdict = Some((
                            "C17/C/final-release-count".into(),
                            format!("{} unblock calls for {} blocked receivers produced {} error returns, {} still blocked", b, b, after - before, s2.blocked_pop),
                        ));
                    }
                }
            }
        }
    }
    let del = sh.delivered.lock().unwrap().clone();
    if verdict.is_none() {
        let mut seen = std::collections::HashSet::new();
        for d in &del {
            if !seen.insert((d.0, d.1)) {
                verdict = Some(("C17/C/request-duplicated".into(), format!("request {}/{} delivered twice", d.0, d.1)));
            }
        }
    }
    rep.inc("workload:C");
    rep.eval(Some(&format!("C|c{}|nb{}|u{}|p{}|{:?}", c, nblocking, u, p.min(3), scripts.iter().map(|s| format!("{:?}", s.ops)).collect::<Vec<_>>())));
    let detail = J::obj()
        .set("receivers", J::A(scripts.iter().map(|r| J::s(format!("{:?} then {:?}", r.ops, r.leave))).collect()))
        .set("unblocks", J::u(u))
        .set("requests", J::u(p))
        .set("history_tail", log_tail(&sh, 120));
    if let Some((sig, what)) = verdict {
        violation(ctx, &sig, what, detail, cs, "C");
    } else if rep.want_sample() && cs % 19 == 0 {
        rep.sample(|| detail.set("workload", J::s("C")));
    }
    wind_down(&server, &sh, rh);
    drop(client_keepalive);
}

// ---------------------------------------------------------------------------------------------
// T: timing

fn workload_t(ctx: &Ctx, env: &Env, rng: &mut Rng, cs: u64) {
    let rep = &ctx.rep;
    let server = env.server.clone();
    let trial = cs & 0xffff_ffff;
    let t_ms = *rng.pick(&[1u64, 5, 20, 100]);
    let ntimed = rng.range(1, 6);
    let with_traffic = rng.chance(2, 3);
    let nspin = if with_traffic { rng.range(1, 2) } else { 0 };
    let stop = Arc::new(AtomicBool::new(false));
    let samples: Arc<Mutex<Vec<(u64, bool)>>> = Arc::new(Mutex::new(Vec::new())); // (elapsed us, got request)
    let try_max_us = Arc::new(AtomicU64::new(0));
    let try_calls = Arc::new(AtomicU64::new(0));
    let in_try = Arc::new(AtomicU64::new(0)); // start time of the try_recv in flight (0 = none)
    let cal = CalWindow::open();
    let mut hs = Vec::new();
    for i in 0..ntimed {
        let (srv, stop, samples) = (server.clone(), stop.clone(), samples.clone());
        hs.push(spawn_named(&format!("tr{}", i), move || {
            while !stop.load(Ordering::SeqCst) {
                let t0 = Instant::now();
                let r = lib(|| srv.recv_timeout(Duration::from_millis(t_ms)));
                let el = t0.elapsed().as_micros() as u64;
                match r {
                    Ok(Some(rq)) => {
                        let _ = lib(|| rq.respond(Response::from_string("ok")));
                        samples.lock().unwrap().push((el, true));
                    }
                    Ok(None) => samples.lock().unwrap().push((el, false)),
                    Err(_) => {}
                }
            }
        }));
    }
    for i in 0..nspin {
        let (srv, stop, mx, calls, in_try) = (server.clone(), stop.clone(), try_max_us.clone(), try_calls.clone(), in_try.clone());
        hs.push(spawn_named(&format!("sp{}", i), move || {
            while !stop.load(Ordering::SeqCst) {
                let t0 = Instant::now();
                in_try.store(now_ns().max(1), Ordering::SeqCst);
                let r = lib(|| srv.try_recv());
                in_try.store(0, Ordering::SeqCst);
                mx.fetch_max(t0.elapsed().as_micros() as u64, Ordering::Relaxed);
                calls.fetch_add(1, Ordering::Relaxed);
                if let Ok(Some(rq)) = r {
                    let _ = lib(|| rq.respond(Response::from_string("ok")));
                }
                std::hint::spin_loop();
            }
        }));
    }
    let dur = Duration::from_millis((t_ms * 6).clamp(40, 400));
    let t0 = Instant::now();
    let mut sent = 0usize;
    let mut cl = if with_traffic { Client::connect(&env.addr).ok() } else { None };
    let period_us = (t_ms * 1000 / 4).max(150);
    let mut try_blocked: Option<u64> = None;
    while t0.elapsed() < dur {
        if let Some(c) = cl.as_mut() {
            c.send(format!("GET /q/{:x}/0/{} HTTP/1.1\r\nHost: h\r\n\r\n", trial, sent).as_bytes());
            sent += 1;
        }
        sleep_us(period_us + rng.below(200) as u64);
        let st = in_try.load(Ordering::SeqCst);
        if st != 0 && now_ns().saturating_sub(st) > 1_000_000_000 {
            try_blocked = Some(now_ns() - st);
            break;
        }
    }
    stop.store(true, Ordering::SeqCst);
    if try_blocked.is_some() {
        // release whatever is stuck
        for _ in 0..8 {
            server.vunblock();
        }
    }
    for h in hs {
        let _ = h.join();
    }
    if let Some(c) = cl.as_mut() {
        let _ = c.await_finals(sent, &|_| false, Duration::from_millis(300));
    }
    for _ in 0..1000 {
        let s = server.vsnap();
        if s.elems == 0 && s.tokens == 0 {
            break;
        }
        if let Ok(Some(rq)) = server.try_recv() {
            let _ = rq.respond(Response::from_string("drained"));
        }
    }
    let (over, _) = cal.read();
    let over_us = over.as_micros() as u64;
    let t_us = t_ms * 1000;
    let lower = t_us.saturating_sub(1500);
    // Scheduling latency on a machine that runs 16 workers (some of them pinned, with spinners)
    // reaches tens of milliseconds and does not depend on T, whereas a defect in the timeout
    // accounting (a wake-up that re-arms the full timeout) is late by multiples of T: the native
    // bound is therefore decisive for the larger T only; the small ones are decided on Miri's
    // virtual clock (scenario queue_timing).
    let upper = 2 * t_us + 10 * over_us + 60_000.max(t_us / 2);
    let samples = samples.lock().unwrap().clone();
    let empties: Vec<u64> = samples.iter().filter(|s| !s.1).map(|s| s.0).collect();
    rep.inc("workload:T");
    rep.counts.add("T_empty_handed_timed_receives", empties.len() as u64);
    rep.counts.add("T_timed_receives_with_request", samples.iter().filter(|s| s.1).count() as u64);
    rep.counts.add("T_try_recv_calls", try_calls.load(Ordering::Relaxed));
    // elapsed > 1.25 T means the receiver saw at least one wake-up that gave it nothing
    rep.counts.add("T_empty_receives_with_stolen_wakeup", empties.iter().filter(|e| **e > t_us + t_us / 4).count() as u64);
    rep.eval(Some(&format!("T|{}ms|n{}|traffic{}|spin{}", t_ms, ntimed, with_traffic, nspin)));
    let detail = |bad: Option<u64>| {
        J::obj()
            .set("timeout_ms", J::I(t_ms as i64))
            .set("timed_receivers", J::u(ntimed))
            .set("try_recv_spinners", J::u(nspin))
            .set("requests_pushed", J::u(sent))
            .set("calibrator_overshoot_us", J::I(over_us as i64))
            .set("bounds_us", J::s(format!("[{}, {}]", lower, upper)))
            .set("offending_elapsed_us", bad.map(|b| J::I(b as i64)).unwrap_or(J::Null))
            .set("empty_handed_elapsed_us", J::A(empties.iter().take(60).map(|e| J::I(*e as i64)).collect()))
    };
    if let Some(ns) = try_blocked {
        if cal.healthy(Duration::from_millis(150)) {
            violation(ctx, "C17/T/try_recv-blocked", format!("try_recv did not return for {} ms", ns / 1_000_000), detail(None), cs, "T");
        } else {
            rep.inconclusive("T: try_recv slow, calibrator unhealthy");
        }
        return;
    }
    if let Some(e) = empties.iter().find(|e| **e < lower) {
        if t_ms >= 5 {
            violation(
                ctx,
                "C17/T/timed-receive-returned-early",
                format!("recv_timeout({} ms) returned empty-handed after {} us", t_ms, e),
                detail(Some(*e)),
                cs,
                "T",
            );
            return;
        }
    }
    // Upper bound: a single late sample on a busy machine is one starved thread (the calibrator
    // watches the process, not every thread) and is inconclusive; a defect in the timeout
    // accounting is systematic and shows in several samples of the trial.
    let n_late = empties.iter().filter(|e| **e > upper).count();
    rep.counts.add("T_late_samples", n_late as u64);
    if n_late == 1 {
        rep.inconclusive("T: a single late timed receive (one starved thread is not a verdict)");
    }
    if let Some(e) = empties.iter().find(|e| **e > upper).filter(|_| n_late >= 2) {
        if over_us < 20_000 && cal.healthy(Duration::from_millis(50)) {
            violation(
                ctx,
                "C17/T/timed-receive-returned-late",
                format!("recv_timeout({} ms) returned empty-handed after {} us (> 2T + slack)", t_ms, e),
                detail(Some(*e)),
                cs,
                "T",
            );
            return;
        } else {
            rep.inconclusive("T: late sample on an unhealthy machine");
        }
    }
    let tm = try_max_us.load(Ordering::Relaxed);
    rep.counts.max("T_try_recv_max_us", tm);
    if rep.want_sample() && cs % 23 == 0 {
        rep.sample(|| detail(None).set("workload", J::s("T")));
    }
}

pub fn run_case(ctx: &Ctx, env: &Env, cs: u64, which: usize) {
    let mut rng = Rng::new(cs);
    if !crate::p07::settle(&env.server) {
        ctx.rep.inconclusive("connection tasks of earlier trials did not end within 3 s");
        return;
    }
    match which {
        0 => workload_a(ctx, env, &mut rng, cs),
        1 => workload_b(ctx, env, &mut rng, cs),
        2 => workload_c(ctx, env, &mut rng, cs),
        _ => workload_t(ctx, env, &mut rng, cs),
    }
}

pub fn run(ctx: &Ctx) {
    crate::env::install_fp_hook();
    if let Some((cs, mode, repeat)) = &ctx.replay {
        let env = Env::new(false, 0);
        let which = match mode.as_str() {
            "A" => 0,
            "B" => 1,
            "C" => 2,
            _ => 3,
        };
        for _ in 0..(*repeat).max(1) {
            run_case(ctx, &env, *cs, which);
        }
        return;
    }
    let mut rng = Rng::new(ctx.seed ^ ((ctx.shard as u64) << 32) ^ 0xC17);
    // timing workloads are kept on unpinned shards
    let timing_shard = ctx.shard % 4 == 3;
    let pert = if timing_shard {
        crate::env::Perturb { cpus: crate::util::online_cpus(), spinners: 0, _spin: None, desc: "unpinned".into() }
    } else {
        crate::env::perturb_setup(&mut rng, ctx.shard, true)
    };
    let mut env = Env::new(false, 0);
    let mut idx = 0u64;
    while ctx.time_left() {
        if env.cases_run >= 300 {
            env = Env::new(false, 0);
        }
        let cs = ctx.case_seed(idx);
        let which = if timing_shard { 3 } else { (idx % 3) as usize };
        run_case(ctx, &env, cs, which);
        env.cases_run += 1;
        if LIB_PANICKED.load(Ordering::SeqCst) {
            violation(
                ctx,
                "C17/receive-call-panicked",
                "a receive call (or unblock) panicked inside the library instead of returning".into(),
                J::obj().set("panics", J::A(crate::p07::panic_texts().iter().take(6).map(J::s).collect())),
                cs,
                ["A", "B", "C", "T"][which],
            );
            std::mem::forget(env);
            break;
        }
        idx += 1;
        if ctx.rep.n_violations() >= 8 {
            break;
        }
    }
    ctx.rep.set_extra("perturbation", J::s(pert.desc.clone()));
}
