//! C13 – behaviour depends on the bytes sent, not on how they were segmented (metamorphic).
//! For conversations taken from the generators of C02, C03, C09, C10, C12 and C16 the same
//! client byte stream is delivered in one write (baseline) and in many segmentations (every
//! single split point, one byte at a time, random multi-way splits). Each segment is sent only
//! after the server consumed the previous bytes (FP_SOCK_READ), so the server's reads really
//! return one segment each. The observation (delivered heads and bodies, responses) must be
//! identical.

use crate::conv::*;
use crate::env::Env;
use crate::gen;
use crate::net::End;
use crate::pconv::generate;
use crate::report::Violation;
use crate::util::{fnv, Rng, J};
use crate::Ctx;

const CORPUS_PROPS: &[&str] = &["C02", "C03", "C09", "C10", "C12", "C16", "C03", "C09", "C18"];

/// Canonical, segmentation-independent observation.
fn canon(obs: &ConvObs) -> Vec<String> {
    let mut v = Vec::new();
    for d in &obs.delivered {
        v.push(format!(
            "D {} {} {:?} h={:016x} n={} len={:?} body={}:{:016x} eof={} err={} fin={}:{:?}",
            d.method,
            crate::util::esc(d.url.as_bytes(), 60),
            d.version,
            d.echo,
            d.headers.len(),
            d.body_length,
            d.body.len(),
            fnv(&d.body),
            d.eof_seen,
            d.read_err.is_some(),
            d.finish,
            d.finish_err.is_some()
        ));
    }
    for (r, _) in &obs.msgs {
        let hs: Vec<String> = r
            .headers
            .iter()
            .map(|(n, val)| if n.eq_ignore_ascii_case("date") { format!("{}:<date>", n) } else { format!("{}:{}", n, val) })
            .collect();
        v.push(format!("R {} {:?} body={}:{:016x} framing={}", r.status, hs, r.body.len(), fnv(&r.body), match r.framing {
            crate::httpc::Framing::Chunked(_) => "chunked",
            crate::httpc::Framing::ContentLength(_) => "cl",
            crate::httpc::Framing::Bodiless => "none",
            crate::httpc::Framing::UntilClose => "close",
        }));
    }
    if let Some(e) = &obs.parse_error {
        v.push(format!("P {}", e.chars().take(60).collect::<String>()));
    }
    v.push(format!("E {}", match obs.end { End::Eof | End::Rst => "ended", End::Err => "err", End::Open => "open" }));
    v
}

fn with_script(base: &ConvCase, ends: Option<Vec<usize>>, pause_us: u64) -> ConvCase {
    let mut c = base.clone();
    // the handler must be a deterministic function of the request: "k reads, then a zero-length
    // read" obtains a number of bytes that legitimately depends on how many bytes each read
    // returned, i.e. on the segmentation (and a zero-length read ends the body, see C03's guard)
    for p in c.plans.iter_mut() {
        p.zero_read_after = None;
    }
    let half = base.script.iter().any(|s| matches!(s, Step::HalfClose));
    let total = c.wire.len();
    let mut s = Vec::new();
    match ends {
        None => s.push(Step::Send(0, total)),
        Some(e) => s.push(Step::SendPaced { from: 0, ends: e, pause_us }),
    }
    if half {
        s.push(Step::HalfClose);
    }
    s.push(Step::AwaitEnd);
    c.script = s;
    c
}

/// The same bytes in two segments with a pause of more than five seconds in between (pauses are
/// part of "how the bytes were segmented"; nothing in the library may give up on a slow client
/// in a way that changes the outcome).
fn run_long_pause(ctx: &Ctx, env: &Env, prop: &str, cseed: u64, base_case: &ConvCase, base_canon: &[String], at: usize, paced_to: Option<usize>) {
    let rep = &ctx.rep;
    let mut c = with_script(base_case, None, 0);
    let half = base_case.script.iter().any(|s| matches!(s, Step::HalfClose));
    let n = c.wire.len();
    let mut s = match paced_to {
        // one pause of 5.6 s
        None => vec![Step::Send(0, at), Step::SleepUs(5_600_000), Step::Send(at, n)],
        // the same total spread over eight pauses of 0.7 s: bytes [at, to) in eight slices
        Some(to) => {
            let mut v = vec![Step::Send(0, at)];
            let mut pos = at;
            for i in 1..=8usize {
                let e = if i == 8 { to } else { at + (to - at) * i / 8 };
                v.push(Step::SleepUs(700_000));
                if e > pos {
                    v.push(Step::Send(pos, e));
                    pos = e;
                }
            }
            v.push(Step::Send(to, n));
            v
        }
    };
    if half {
        s.push(Step::HalfClose);
    }
    s.push(Step::AwaitEnd);
    c.script = s;
    let obs = run_conv(env, &c);
    if obs.connect_err.is_some() || (obs.timed_out.is_some() && !obs.healthy) {
        rep.inconclusive("long-pause variant inconclusive");
        return;
    }
    let cv = canon(&obs);
    rep.inc(if paced_to.is_some() { "variant:eight-pauses-of-0.7s" } else { "variant:two-segments-5.6s-apart" });
    rep.eval(Some(&format!("{}|{:x}|pause@{}", prop, cseed & 0xffff_ffff, at)));
    if cv != base_canon {
        let diff_at = cv.iter().zip(base_canon.iter()).position(|(a, b)| a != b).unwrap_or(cv.len().min(base_canon.len()));
        rep.violation(Violation {
            signature: format!("C13/{}/{}/{}", prop, base_case.label, if paced_to.is_some() { "differs-after-slow-delivery" } else { "differs-after-long-pause" }),
            what: match paced_to {
                None => format!("a pause of 5.6 s after byte {} of a {}-byte conversation changes the outcome (first difference in item #{})", at, n, diff_at),
                Some(to) => format!("eight pauses of 0.7 s while bytes {}..{} of a {}-byte conversation are delivered change the outcome (first difference in item #{})", at, to, n, diff_at),
            },
            detail: J::obj()
                .set("corpus_property", J::s(prop))
                .set("conversation_seed", J::S(cseed.to_string()))
                .set("pause_after_byte", J::u(at))
                .set("wire", J::S(crate::util::esc(&base_case.wire, 800)))
                .set("baseline", J::A(base_canon.iter().map(J::s).collect()))
                .set("variant", J::A(cv.iter().map(J::s).collect())),
            case_seed: cseed,
            mode: match paced_to {
                None => format!("{}:pause:{}", prop, at),
                Some(to) => format!("{}:pause:{}-{}", prop, at, to),
            },
        });
    }
}

pub fn corpus_entry(seed: u64, i: u64) -> (String, u64) {
    let prop = CORPUS_PROPS[(i as usize) % CORPUS_PROPS.len()];
    (prop.to_string(), crate::util::mix(seed, 0xC13, i))
}

fn run_variant(ctx: &Ctx, env: &Env, prop: &str, cseed: u64, base_case: &ConvCase, base_obs: &ConvObs, base_canon: &[String], ends: Vec<usize>, kind: &str) {
    let rep = &ctx.rep;
    let case = with_script(base_case, Some(ends.clone()), 400);
    let obs = run_conv(env, &case);
    if obs.connect_err.is_some() || (obs.timed_out.is_some() && !obs.healthy) {
        rep.inconclusive("variant run inconclusive");
        return;
    }
    let c = canon(&obs);
    // how many separate reads did the server really see, compared with the baseline?
    let really_segmented = obs.server_reads != base_obs.server_reads;
    rep.counts.add("segments_sent", obs.segments_sent as u64);
    rep.counts.add("server_reads_observed", obs.server_reads.len() as u64);
    rep.inc(&format!("variant:{}", kind));
    if really_segmented {
        rep.inc("variants_where_server_reads_differ_from_baseline");
    }
    let sig = format!("{}|{:x}|{:x}", prop, cseed & 0xffff_ffff, fnv(format!("{:?}", ends).as_bytes()));
    rep.eval(if really_segmented { Some(&sig) } else { None });
    // A reset that reaches the client before its reader has taken a response out of the socket
    // destroys that response (TCP discards unread data on RST). When the server has rejected a
    // request and closed, the segments the client sends *afterwards* provoke exactly such a reset;
    // whether the already written 400 survives is decided in the client's kernel, not by the
    // library. Deliveries identical, responses a proper prefix of the baseline's and the
    // connection ended by a reset: that difference is not attributed to the server.
    if c != base_canon && obs.end == End::Rst {
        let ds = |v: &[String]| v.iter().filter(|x| x.starts_with("D ")).cloned().collect::<Vec<_>>();
        let rs = |v: &[String]| v.iter().filter(|x| x.starts_with("R ")).cloned().collect::<Vec<_>>();
        let (rv, rb) = (rs(&c), rs(base_canon));
        if ds(&c) == ds(base_canon) && rv.len() < rb.len() && rb[..rv.len()] == rv[..] {
            rep.inconclusive("variant ended by a connection reset before the client had read the last response(s)");
            return;
        }
    }
    if c != base_canon {
        let diff_at = c.iter().zip(base_canon.iter()).position(|(a, b)| a != b).unwrap_or(c.len().min(base_canon.len()));
        rep.violation(Violation {
            signature: format!("C13/{}/{}/differs", prop, base_case.label),
            what: format!(
                "segmentation {} of a {}-byte conversation changes the outcome (first difference in item #{})",
                kind,
                base_case.wire.len(),
                diff_at
            ),
            detail: J::obj()
                .set("corpus_property", J::s(prop))
                .set("variant_end", J::s(format!("{:?}", obs.end)))
                .set("conversation_seed", J::S(cseed.to_string()))
                .set("segment_ends", J::A(ends.iter().take(200).map(|e| J::u(*e)).collect()))
                .set("wire", J::S(crate::util::esc(&base_case.wire, 800)))
                .set("baseline", J::A(base_canon.iter().map(J::s).collect()))
                .set("variant", J::A(c.iter().map(J::s).collect()))
                .set("server_read_sizes_variant", J::A(obs.server_reads.iter().take(100).map(|e| J::u(*e)).collect()))
                .set("server_read_sizes_baseline", J::A(base_obs.server_reads.iter().take(100).map(|e| J::u(*e)).collect())),
            case_seed: cseed,
            mode: format!("{}:{}", prop, ends.iter().take(40).map(|e| e.to_string()).collect::<Vec<_>>().join(",")),
        });
    } else if rep.want_sample() && (cseed ^ ends.len() as u64) % 29 == 0 {
        rep.sample(|| {
            J::obj()
                .set("corpus_property", J::s(prop))
                .set("wire_len", J::u(base_case.wire.len()))
                .set("segment_ends", J::A(ends.iter().take(30).map(|e| J::u(*e)).collect()))
                .set("server_read_sizes", J::A(obs.server_reads.iter().take(30).map(|e| J::u(*e)).collect()))
                .set("observation", J::A(c.iter().map(J::s).collect()))
        });
    }
}

pub fn run(ctx: &Ctx) {
    crate::env::install_fp_hook();
    crate::env::track_reads(true);
    let env = Env::new(false, 1);
    if let Some((cs, mode, repeat)) = &ctx.replay {
        // mode = "<prop>:<comma separated segment ends>"
        let mut it = mode.splitn(2, ':');
        let prop = it.next().unwrap_or("C02").to_string();
        let ends: Vec<usize> = it.next().unwrap_or("").split(',').filter_map(|s| s.parse().ok()).collect();
        let g = generate(&prop, *cs, false, 1500);
        let base = with_script(&g.case, None, 0);
        let bo = run_conv(&env, &base);
        let bc = canon(&bo);
        if let Some(rest) = mode.splitn(2, ':').nth(1).and_then(|r| r.strip_prefix("pause:")) {
            // "<prop>:pause:<byte>" (one run: each takes six seconds)
            // or "<prop>:pause:<from>-<to>" for the eight-pauses variant
            let mut it = rest.splitn(2, '-');
            let at: usize = it.next().and_then(|x| x.parse().ok()).unwrap_or(1);
            let to: Option<usize> = it.next().and_then(|x| x.parse().ok());
            run_long_pause(ctx, &env, &prop, *cs, &base, &bc, at, to);
            return;
        }
        for _ in 0..(*repeat).max(1) {
            run_variant(ctx, &env, &prop, *cs, &base, &bo, &bc, ends.clone(), "replay");
        }
        return;
    }
    let mut rng = Rng::new(ctx.seed ^ ((ctx.shard as u64) << 32) ^ 0xC13);
    let mut env = env;
    let mut conv_idx = ctx.shard as u64;
    let mut conversations = 0u64;
    let mut long_pauses_done = 0usize;
    while ctx.time_left() {
        if env.cases_run >= 4000 {
            env = Env::new(false, 1);
        }
        let (prop, cseed) = corpus_entry(ctx.seed, conv_idx);
        conv_idx += ctx.nshards as u64;
        let g = generate(&prop, cseed, false, 1500);
        let base = with_script(&g.case, None, 0);
        // baseline twice: a conversation whose outcome is not reproducible in one write is not
        // used as an oracle (none is expected; it would be reported as inconclusive)
        let bo = run_conv(&env, &base);
        let bo2 = run_conv(&env, &base);
        env.cases_run += 2;
        if bo.connect_err.is_some() || bo.timed_out.is_some() || bo2.timed_out.is_some() {
            // conversations that stall are C10's business; they are not a usable baseline
            ctx.rep.inc("conversations_skipped_baseline_timed_out");
            continue;
        }
        let bc = canon(&bo);
        if bc != canon(&bo2) {
            ctx.rep.inconclusive("baseline not reproducible");
            continue;
        }
        conversations += 1;
        ctx.rep.inc(&format!("corpus:{}:{}", prop, g.case.label.split('/').next().unwrap_or("")));
        let n = base.wire.len();
        // two shards spend part of their budget on long pauses (one variant per conversation in
        // the quick tier, up to four in the thorough one)
        // two more shards put their long pause between the end of the request line and the end of
        // the first head (a slow client that is slow while the header lines are being read)
        if ctx.shard % 8 == 3 && long_pauses_done < if ctx.thorough { 24 } else { 1 } {
            let line_end = base.wire.windows(2).position(|w| w == b"\r\n").map(|p| p + 2);
            let head_end = base.wire.windows(4).position(|w| w == b"\r\n\r\n").map(|p| p + 2);
            if let (Some(le), Some(he)) = (line_end, head_end) {
                if he > le + 2 && he < n {
                    let at = rng.range(le + 1, he - 1);
                    run_long_pause(ctx, &env, &prop, cseed, &base, &bc, at, None);
                    long_pauses_done += 1;
                    ctx.rep.inc("long_pause_inside_header_block");
                    if ctx.thorough {
                        // the same block delivered slowly instead: no single pause is long
                        run_long_pause(ctx, &env, &prop, cseed, &base, &bc, le, Some(he));
                        long_pauses_done += 1;
                    }
                }
            }
        }
        if ctx.shard % 8 == 5 && n > 2 && long_pauses_done < if ctx.thorough { 24 } else { 1 } {
            for vi in 0..(if ctx.thorough { 4 } else { 1 }) {
                // the first one inside the first head (whatever the conversation, the server is
                // then in the middle of reading a request), the others anywhere
                let at = if vi == 0 { rng.range(1, (n - 1).min(40)) } else { rng.range(1, n - 1) };
                run_long_pause(ctx, &env, &prop, cseed, &base, &bc, at, None);
                long_pauses_done += 1;
            }
        }
        let slice_deadline = std::time::Instant::now() + std::time::Duration::from_millis(if ctx.thorough { 6000 } else { 1500 });
        // every single split point (all of them for short conversations, a sample otherwise)
        let mut points: Vec<usize> = (1..n).collect();
        if n > 700 {
            rng.shuffle(&mut points);
            points.truncate(if ctx.thorough { 300 } else { 60 });
            // the buffer boundaries are always included
            for p in [1023usize, 1024, 1025, 2048] {
                if p < n {
                    points.push(p);
                }
            }
        }
        for p in points {
            if !ctx.time_left() || std::time::Instant::now() > slice_deadline {
                break;
            }
            run_variant(ctx, &env, &prop, cseed, &base, &bo, &bc, vec![p, n], "single-split");
            env.cases_run += 1;
        }
        // one byte at a time
        if n <= 600 && ctx.time_left() {
            run_variant(ctx, &env, &prop, cseed, &base, &bo, &bc, (1..=n).collect(), "byte-by-byte");
            env.cases_run += 1;
        }
        // random multi-way splits
        let nrand = if ctx.thorough { 200 } else { 25 };
        for _ in 0..nrand {
            if !ctx.time_left() {
                break;
            }
            let k = rng.range(2, 12);
            let ends = gen::random_splits(&mut rng, n, k);
            run_variant(ctx, &env, &prop, cseed, &base, &bo, &bc, ends, "random-k-way");
            env.cases_run += 1;
        }
        if ctx.rep.n_violations() >= 8 {
            break;
        }
    }
    ctx.rep.counts.add("conversations", conversations);
}
