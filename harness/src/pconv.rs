//! Deterministic conversation checks: C02, C03, C09, C10, C12, C16, C18 and the native part of
//! C04. Each property has its own generator (restricted to the property's quantifier) and says
//! which aspects the generic judge decides.

use crate::conv::*;
use crate::env::Env;
use std::io::Write as _;
use crate::gen::{self, AbsReq};
use crate::model;
use crate::report::Violation;
use crate::util::{Rng, J};
use crate::Ctx;

pub struct Gen {
    pub case: ConvCase,
    pub judge: Judge,
    /// class signature for distinct counting; None = trivial
    pub sig: Option<String>,
    /// extra per-property checks
    pub extra: Extra,
}

#[derive(Clone, Debug, Default)]
pub struct Extra {
    /// C18: (delivery k, interim must not arrive before the application asked)
    pub check_100_timing: Vec<usize>,
    /// C03 upgrade: bytes the upgrade stream must deliver (checked against Delivered.body)
    pub note: String,
}

const READ_SIZES: &[usize] = &[1, 2, 3, 7, 64, 1000, 1023, 1024, 1025, 4096, 65536];

pub fn read_sizes(rng: &mut Rng, body_len: usize) -> Vec<usize> {
    let n = rng.range(1, 4);
    let mut v: Vec<usize> = (0..n).map(|_| *rng.pick(READ_SIZES)).collect();
    // keep the number of reads bounded for large bodies
    if body_len > 20000 && v.iter().all(|s| *s < 64) {
        v.push(4096);
    }
    v
}

pub fn simple_req(caseid: u64, idx: usize, version: (u8, u8)) -> AbsReq {
    AbsReq::new("GET", &format!("/v/{:x}/{}", caseid & 0xffff_ffff, idx), version)
        .h("Host", " h")
        .h("X-Vid", &format!(" {}", idx))
}

pub fn wire_of(a: &AbsReq, body: &[u8], label: &str) -> WireReq {
    let mut b = a.head_bytes();
    let head_len = b.len();
    b.extend_from_slice(body);
    WireReq { bytes: b, head_len, label: label.to_string(), abs: Some(a.clone()) }
}

fn raw_wire(bytes: Vec<u8>, label: &str) -> WireReq {
    let head_len = bytes.len();
    WireReq { bytes, head_len, label: label.to_string(), abs: None }
}

fn ok_resp(k: usize, head: bool) -> ExpResp {
    ExpResp { status: vec![200], delivered_k: Some(k), head, interims: 0 }
}

fn err_resp(status: u16) -> ExpResp {
    ExpResp { status: vec![status], delivered_k: None, head: false, interims: 0 }
}

/// Make sure request `a` keeps the connection open (used for all but the last request).
fn make_persistent(a: &mut AbsReq) {
    if a.version == (1, 0) && a.header("Connection").is_none() {
        a.add("Connection", " keep-alive");
    }
}

fn dedup_connection(a: &mut AbsReq) {
    let mut seen = false;
    a.headers.retain(|(n, _)| {
        if n.eq_ignore_ascii_case("connection") {
            if seen {
                return false;
            }
            seen = true;
        }
        true
    });
}

/// Default client script: everything in one write or a few paced segments, optional half-close,
/// then read until the server closes.
fn default_script(rng: &mut Rng, wire_len: usize, half_close: bool) -> Vec<Step> {
    let mut s = Vec::new();
    if rng.chance(1, 3) && wire_len > 2 {
        let k = rng.range(2, 5);
        let ends = gen::random_splits(rng, wire_len, k);
        s.push(Step::SendPaced { from: 0, ends, pause_us: 300 });
    } else {
        s.push(Step::Send(0, wire_len));
    }
    if half_close {
        s.push(Step::HalfClose);
    }
    s.push(Step::AwaitEnd);
    s
}

pub struct Pipe {
    pub reqs: Vec<WireReq>,
    pub plans: Vec<ReqPlan>,
    pub exp_delivered: Vec<ExpDelivered>,
    pub exp_responses: Vec<ExpResp>,
}

impl Pipe {
    pub fn new() -> Pipe {
        Pipe { reqs: Vec::new(), plans: Vec::new(), exp_delivered: Vec::new(), exp_responses: Vec::new() }
    }
    /// a valid request that is delivered and answered by `plan`
    pub fn push_valid(&mut self, a: &AbsReq, wire_body: &[u8], designated: Vec<u8>, len: LenExp, plan: ReqPlan, label: &str) {
        let k = self.exp_delivered.len();
        self.reqs.push(wire_of(a, wire_body, label));
        let is_head = a.method == "HEAD";
        let resp = match &plan.finish {
            Finish::Respond { status, .. } => ExpResp { status: vec![*status], delivered_k: Some(k), head: is_head, interims: 0 },
            Finish::Writer { status, .. } => ExpResp { status: vec![*status], delivered_k: Some(k), head: false, interims: 0 },
            Finish::Drop | Finish::Panic => ExpResp { status: vec![500], delivered_k: None, head: is_head, interims: 0 },
            Finish::Upgrade { .. } => ExpResp { status: vec![101], delivered_k: None, head: false, interims: 0 },
            Finish::WriterNothing | Finish::WriterPanic => ExpResp { status: vec![], delivered_k: None, head: false, interims: 0 },
            Finish::RespondBrokenBody { .. } => ExpResp { status: vec![200], delivered_k: None, head: false, interims: 0 },
        };
        self.exp_delivered.push(ExpDelivered { wire_idx: self.reqs.len() - 1, body: designated, body_length: len });
        let nothing = matches!(plan.finish, Finish::WriterNothing | Finish::WriterPanic);
        self.plans.push(plan);
        if !nothing {
            self.exp_responses.push(resp);
        }
    }
    pub fn push_simple(&mut self, caseid: u64, close: bool) {
        let idx = self.reqs.len();
        let mut a = simple_req(caseid, idx, (1, 1));
        if close {
            a.add("Connection", " close");
        }
        self.push_valid(&a, &[], Vec::new(), LenExp::Exactly(None), ReqPlan::simple(), "simple");
    }
    /// bytes that the library itself answers (e.g. a malformed head: 400) without delivering
    pub fn push_rejected(&mut self, bytes: Vec<u8>, label: &str, status: u16) {
        self.reqs.push(raw_wire(bytes, label));
        self.exp_responses.push(err_resp(status));
    }
    /// a request on the wire that must not be delivered
    pub fn push_undelivered(&mut self, a: &AbsReq, body: &[u8], label: &str) {
        self.reqs.push(wire_of(a, body, label));
    }
    pub fn finish(self, rng: &mut Rng, label: &str, unix: bool, tail: &[u8], half_close: bool, bound_ms: u64) -> ConvCase {
        let wire = ConvCase::build_wire(&self.reqs, tail);
        let script = default_script(rng, wire.len(), half_close);
        ConvCase {
            label: label.to_string(),
            unix,
            reqs: self.reqs,
            wire,
            plans: self.plans,
            script,
            exp_delivered: self.exp_delivered,
            exp_responses: self.exp_responses,
            exp_eof: true,
            delivery_optional: false,
            bound_ms,
            sched: Sched::Immediate,
            keep_read_track: false,
        }
    }
}

// ---------------------------------------------------------------------------------------------
// C02

pub fn gen_c02(rng: &mut Rng, caseid: u64, unix: bool, bound_ms: u64) -> Gen {
    let n = rng.range(1, 4);
    let mut p = Pipe::new();
    let mut max_head = 0;
    let mut sigparts = Vec::new();
    for i in 0..n {
        let mut a = gen::valid_head(rng, 64);
        dedup_connection(&mut a);
        // a sixth of the targets are not in origin-form (RFC 7230 5.3: absolute-form as a proxy
        // client sends it, authority-form, asterisk-form, or no recognisable form at all): the
        // target is delivered as sent whatever it looks like
        if rng.chance(1, 6) {
            let path = a.target.clone();
            a.target = match rng.below(9) {
                0 => format!("http://example.com{}", path),
                1 => format!("HTTP://Example.COM:8080{}", path),
                2 => "http://h".to_string(),
                3 => format!("https://example.com{}", path),
                4 => "*".to_string(),
                5 => "example.com:443".to_string(),
                6 => format!("hTtP://[::1]:80{}", path),
                7 => format!("http:///{}", path),
                _ => {
                    let tl = rng.range(1, 40);
                    gen::vchars(rng, tl)
                }
            };
        }
        // an eighth of the heads repeat the Connection field (only the first line decides about
        // persistence, in the library and in the reference alike): both lines must be delivered
        if rng.chance(1, 8) {
            let pos = a.headers.iter().position(|(n, _)| n.eq_ignore_ascii_case("connection"));
            let second = (case_name(rng, "Connection"), rng.pick_s(&[" TE", " x-hop", " keep-alive", " x-a, x-b"]).to_string());
            match pos {
                Some(p0) => {
                    let at = rng.range(p0 + 1, a.headers.len());
                    a.headers.insert(at, second);
                }
                None => {
                    a.headers.push(("Connection".to_string(), " keep-alive".to_string()));
                    a.headers.push(second);
                }
            }
        }
        let last = i + 1 == n;
        if !last {
            make_persistent(&mut a);
        }
        // a unique id somewhere in the header list so that deliveries are unambiguous
        let pos = rng.below(a.headers.len() + 1);
        a.headers.insert(pos, ("X-Vid".to_string(), format!(" {:x}-{}", caseid & 0xffff_ffff, i)));
        // an eighth of the HTTP/1.1 heads carry both framing fields (a chunked body that is empty
        // plus one or two Content-Length fields, which the receiver has to ignore for framing
        // but which are part of the header list like any other field)
        let mut wire_body: Vec<u8> = Vec::new();
        let both = a.version == (1, 1) && rng.chance(1, 8);
        if both {
            a.headers.retain(|(n, _)| !n.eq_ignore_ascii_case("content-length") && !n.eq_ignore_ascii_case("transfer-encoding"));
            let pos = rng.below(a.headers.len() + 1);
            a.headers.insert(pos, (case_name(rng, "Transfer-Encoding"), " chunked".to_string()));
            for _ in 0..rng.range(1, 2) {
                let pos = rng.below(a.headers.len() + 1);
                a.headers.insert(pos, (case_name(rng, "Content-Length"), " 5".to_string()));
            }
            wire_body = b"0\r\n\r\n".to_vec();
        }
        let hl = a.head_bytes().len();
        max_head = max_head.max(hl);
        let mclass = if both { "te+cl" } else if gen::STD_METHODS.contains(&a.method.as_str()) { "std" } else { "ext" };
        sigparts.push(format!(
            "{}|h{}|l{}|v{}",
            mclass,
            match a.headers.len() {
                0..=1 => "0-1",
                2..=8 => "2-8",
                9..=32 => "9-32",
                _ => "33+",
            },
            match hl {
                0..=1023 => "<1k",
                1024..=4095 => "1k-4k",
                _ => ">4k",
            },
            a.version.1
        ));
        p.push_valid(&a, &wire_body, Vec::new(), LenExp::Any, ReqPlan::simple(), "valid-head");
    }
    let last_closes = {
        let a = p.reqs.last().unwrap().abs.as_ref().unwrap();
        model::ends_connection(a.version, a.header("Connection"))
    };
    let hc = !last_closes || rng.chance(1, 2);
    let case = p.finish(rng, "head", unix, &[], hc, bound_ms);
    let mut judge = Judge::all();
    judge.body = false;
    Gen {
        case,
        judge,
        sig: Some(format!("{}|{}|n{}", if unix { "unix" } else { "tcp" }, sigparts.join(","), n)),
        extra: Extra { note: format!("max_head={}", max_head), ..Default::default() },
    }
}

// ---------------------------------------------------------------------------------------------
// C03

const CL_SIZES: &[usize] = &[0, 1, 2, 1023, 1024, 1025, 2047, 2048, 2049, 4095, 4096, 4097, 8192, 20000, 70000];

fn case_name(rng: &mut Rng, s: &str) -> String {
    match rng.below(4) {
        0 => s.to_ascii_lowercase(),
        1 => s.to_ascii_uppercase(),
        2 => s.chars().map(|c| if rng.chance(1, 2) { c.to_ascii_uppercase() } else { c.to_ascii_lowercase() }).collect(),
        _ => s.to_string(),
    }
}

pub fn gen_c03(rng: &mut Rng, caseid: u64, unix: bool, bound_ms: u64) -> Gen {
    let mut p = Pipe::new();
    let kind = rng.below(10);
    let mut a = AbsReq::new(rng.pick_s(&["POST", "PUT", "PATCH", "GET", "HEAD", "TRACE", "DELETE", "OPTIONS", "XBODY"]), &format!("/v/{:x}/0", caseid & 0xffff_ffff), (1, 1)).h("Host", " h");
    // (framing does not depend on the method: a HEAD or TRACE request that declares a body has one)
    let kind_label;
    let len;
    let wire_body: Vec<u8>;
    let designated: Vec<u8>;
    let lenexp;
    let mut upgrade = false;
    match kind {
        0 => {
            kind_label = "none";
            len = 0;
            wire_body = Vec::new();
            designated = Vec::new();
            lenexp = LenExp::Exactly(None);
        }
        1..=4 => {
            kind_label = "content-length";
            len = *rng.pick(CL_SIZES);
            designated = gen::body_bytes(caseid, len, rng.chance(1, 3));
            wire_body = designated.clone();
            a.add(&case_name(rng, "Content-Length"), &format!(" {}", len));
            lenexp = LenExp::Exactly(Some(len));
        }
        5..=7 => {
            kind_label = "chunked";
            len = *rng.pick(&[0usize, 1, 5, 1023, 1024, 1025, 3000, 8192, 20000]);
            designated = gen::body_bytes(caseid, len, rng.chance(1, 3));
            let mc = *rng.pick(&[1usize, 7, 100, 1024, 5000]);
            let ch = gen::gen_chunking(rng, len, mc);
            wire_body = gen::encode_chunked(&designated, &ch);
            a.add(&case_name(rng, "Transfer-Encoding"), rng.pick_s(&[" chunked", "chunked", " Chunked"]));
            // a fifth of them on an HTTP/1.0 request line (kept alive): the header decides
            if rng.chance(1, 5) {
                a.version = (1, 0);
                a.add("Connection", " keep-alive");
            }
            lenexp = LenExp::Exactly(None);
        }
        8 => {
            kind_label = "cl+te";
            len = *rng.pick(&[1usize, 5, 1024, 3000]);
            designated = gen::body_bytes(caseid, len, true);
            let ch = gen::gen_chunking(rng, len, 500);
            wire_body = gen::encode_chunked(&designated, &ch);
            let cl = *rng.pick(&[0usize, 3, 10, 5000]);
            // transfer-coding names are case-insensitive
            let tev = rng.pick_s(&[" chunked", " Chunked", " CHUNKED", "chunked", " cHUNKED"]);
            let cln = case_name(rng, "Content-Length");
            let ten = case_name(rng, "Transfer-Encoding");
            if rng.chance(1, 2) {
                a.add(&cln, &format!(" {}", cl));
                a.add(&ten, tev);
            } else {
                a.add(&ten, tev);
                a.add(&cln, &format!(" {}", cl));
            }
            // the statement is silent on whether the ignored Content-Length is reported
            lenexp = LenExp::Any;
        }
        _ => {
            kind_label = "upgrade";
            upgrade = true;
            len = *rng.pick(&[0usize, 1, 100, 1024, 5000, 30000]);
            designated = gen::body_bytes(caseid, len, true);
            wire_body = designated.clone();
            a.add("Connection", rng.pick_s(&[" upgrade", " Upgrade", " keep-alive, Upgrade"]));
            a.add("Upgrade", " vproto");
            // an upgrade request may carry a (meaningless) Content-Length: the body is still
            // everything that follows; whether that length is reported is left open
            match rng.below(4) {
                0 => {
                    a.add("Content-Length", " 0");
                    lenexp = LenExp::Any;
                }
                1 => {
                    a.add("Content-Length", &format!(" {}", rng.pick(&[1usize, 5, 2000])));
                    lenexp = LenExp::Any;
                }
                _ => lenexp = LenExp::Exactly(None),
            }
        }
    }
    let sizes = read_sizes(rng, len);
    let api = *rng.pick(&[ReadApi::Read, ReadApi::Read, ReadApi::ReadVectored, ReadApi::ReadToEnd, ReadApi::ReadToString]);
    let plan = ReqPlan {
        read: ReadPlan::ToEof { extra: 3 },
        read_sizes: sizes.clone(),
        as_reader_calls: rng.range(1, 2),
        finish: Finish::Respond { status: 200, body_len: 10, declared: true, threshold: None, max_piece: 1000 },
        pre_delay_us: 0,
        zero_read_after: None,
            read_api: api,
    };
    p.push_valid(&a, &wire_body, designated, lenexp, plan, kind_label);
    let mut tail: Vec<u8> = Vec::new();
    if !upgrade {
        // pipelined sentinel: must be delivered intact with its own id and an empty body
        p.push_simple(caseid, true);
        if rng.chance(1, 3) {
            tail = b"GET /smuggled/tail HTTP/1.1\r\n\r\n".to_vec();
        }
    }
    // an upgrade body ends when the client half-closes
    let case = p.finish(rng, kind_label, unix, &tail, upgrade, bound_ms);
    let bucket = match len {
        0 => "0",
        1..=1023 => "<1024",
        1024 => "1024",
        1025..=4096 => "<=4096",
        _ => ">4096",
    };
    let rs = format!("{:?}", sizes.iter().map(|s| if *s < 64 { 0 } else if *s <= 1024 { 1 } else { 2 }).collect::<Vec<_>>());
    Gen { case, judge: Judge::all(), sig: Some(format!("{}|{}|{}|{:?}", kind_label, bucket, rs, api)), extra: Default::default() }
}

// ---------------------------------------------------------------------------------------------
// C09

pub fn gen_c09(rng: &mut Rng, caseid: u64, unix: bool, bound_ms: u64) -> Gen {
    let mut p = Pipe::new();
    let chunked = rng.chance(2, 5);
    let len = if chunked {
        *rng.pick(&[1usize, 5, 60, 1024, 3000, 20000])
    } else {
        *rng.pick(&[1usize, 30, 64, 1023, 1024, 1025, 5000, 70000])
    };
    let designated = gen::body_bytes(caseid, len, true);
    // the body-bearing request may be HTTP/1.0 with keep-alive (chunked needs 1.1)
    let v10 = !chunked && rng.chance(1, 4);
    let mut a = AbsReq::new("POST", &format!("/v/{:x}/0", caseid & 0xffff_ffff), if v10 { (1, 0) } else { (1, 1) }).h("Host", " h");
    if v10 {
        a.add("Connection", rng.pick_s(&[" keep-alive", " Keep-Alive"]));
    }
    let (wire_body, kind) = if chunked {
        let mc = *rng.pick(&[1usize, 16, 300, 5000]);
        let ch = gen::gen_chunking(rng, len, mc);
        // coding names are case-insensitive (RFC 7230 4), and so is the field name
        a.add(&case_name(rng, "Transfer-Encoding"), rng.pick_s(&[" chunked", " chunked", " Chunked", " CHUNKED", "chunked", " cHuNkEd "]));
        (gen::encode_chunked(&designated, &ch), "chunked")
    } else {
        a.add("Content-Length", &format!(" {}", len));
        (designated.clone(), if len <= 1024 { "cl-buffered" } else { "cl-streamed" })
    };
    let consume = match rng.below(7) {
        0 => ReadPlan::None,
        1 => ReadPlan::Upto(1),
        2 => ReadPlan::Upto(len / 2),
        3 => ReadPlan::Upto(len.saturating_sub(1)),
        4 => ReadPlan::Upto(len),
        5 => ReadPlan::Upto(if len <= 64 { rng.below(len + 1) } else { rng.below(len) }),
        _ => ReadPlan::ToEof { extra: 0 },
    };
    let finish = match rng.below(4) {
        0 => Finish::Respond { status: 200, body_len: 20, declared: true, threshold: None, max_piece: 1000 },
        1 => Finish::Drop,
        2 => Finish::Panic,
        _ => Finish::Writer { status: 200, body_len: 20, parts: vec![(30, false), (1000, true)], early_drop_sleep_us: 0, vectored: rng.chance(1, 2) },
    };
    // a zero-length read (`read(&mut [])`) somewhere in the middle is an ordinary thing for an
    // application to do; message boundaries must hold after it as well
    let zero = if !matches!(consume, ReadPlan::None) && rng.chance(1, 4) { Some(rng.below(3)) } else { None };
    let plan = ReqPlan { read: consume.clone(), read_sizes: read_sizes(rng, len), as_reader_calls: 1, finish, pre_delay_us: 0, zero_read_after: zero, read_api: ReadApi::Read };
    let clabel = plan.read_label(len);
    let flabel = plan.finish_label();
    // a quarter of the HTTP/1.1 requests announce `Expect: 100-continue` and (as RFC 7231
    // 5.1.1 allows) send the body without waiting: the boundary must hold whether or not the
    // application ever asks for the body
    let expecting = !v10 && rng.chance(1, 4);
    if expecting {
        a.add("Expect", " 100-continue");
    }
    // an eighth: the Connection field twice, `upgrade` only in the second line (the first line
    // decides: the request is an ordinary persistent one with an ordinary body)
    if !v10 && rng.chance(1, 8) {
        a.add("Connection", " keep-alive");
        a.add(&case_name(rng, "Connection"), rng.pick_s(&[" Upgrade", " upgrade, x-hop"]));
    }
    let asks = !matches!(plan.read, ReadPlan::None | ReadPlan::Upto(0));
    p.push_valid(&a, &wire_body, designated, LenExp::Any, plan, kind);
    if expecting && asks {
        p.exp_responses.last_mut().unwrap().interims = 1;
    }
    let follow = rng.range(1, 3);
    for i in 0..follow {
        p.push_simple(caseid, i + 1 == follow && rng.chance(1, 2));
    }
    let last_closes = p.reqs.last().unwrap().abs.as_ref().unwrap().header("Connection").is_some();
    let case = p.finish(rng, &format!("{}/{}", kind, clabel), unix, &[], !last_closes, bound_ms);
    let mut judge = Judge::all();
    judge.head_fidelity = false;
    if zero.is_some() {
        // what the body reader returns after a zero-length read is not this property's business
        judge.body = false;
    }
    let partial = matches!(clabel, "part" | "none");
    Gen {
        case,
        judge,
        sig: if partial || clabel == "all-no-eof" || zero.is_some() { Some(format!("{}|{}|{}|{}|z{}|v10{}|e{}", kind, len, clabel, flabel, zero.is_some(), v10, expecting)) } else { None },
        extra: Default::default(),
    }
}

// ---------------------------------------------------------------------------------------------
// C10

const BAD_VERSIONS: &[&str] = &[
    "HTTP/1.2", "HTTP/2", "HTTP/1.10", "http/1.1", "HTTP/1.1x", "FOO", "HTTP/", "1.1", "HTTP/01.1", "HTTP/4.0", "HTTP/2.1", "HTTP/1.", "HTTPS/1.1",
    // numerically equal to a recognised version, but not one of the recognised tokens
    "HTTP/1.01", "HTTP/1.00", "HTTP/+1.1", "HTTP/1.+1", "HTTP/1.+0", "HTTP/001.1", "HTTP/002.0", "HTTP/03.0", "HTTP/0.09", "HTTP/1.1.0", "HTTP/ 1.1", "HTTP/1,1",
];
const HIGH_VERSIONS: &[&str] = &["HTTP/2.0", "HTTP/3.0"];
const BAD_EXPECTS: &[&str] = &["100-continu", "200-ok", "", "100-continue, foo", "xyz", "100", "continue", "100-continue;q=1", "101-continue"];

pub fn gen_c10(rng: &mut Rng, caseid: u64, unix: bool, bound_ms: u64) -> Gen {
    let n = rng.range(1, 4);
    let pos = rng.below(n);
    let class = rng.below(6);
    let mut p = Pipe::new();
    let hold = rng.chance(1, 3);
    let cid = caseid & 0xffff_ffff;
    let mut class_label = String::new();
    let mut stopped = false; // after a closing error nothing else is delivered/answered
    let mut silent_close = false;
    for i in 0..n {
        if i != pos {
            if stopped {
                // on the wire, but must never be delivered
                let a = AbsReq::new("GET", &format!("/smuggled/{:x}/{}", cid, i), (1, 1)).h("Host", " h");
                p.push_undelivered(&a, &[], "after-error");
            } else {
                let mut a = simple_req(caseid, i, (1, 1));
                if i + 1 == n && rng.chance(1, 2) {
                    a.add("Connection", " close");
                }
                let mut plan = ReqPlan::simple();
                if hold && i < pos {
                    plan.pre_delay_us = 50_000;
                }
                p.push_valid(&a, &[], Vec::new(), LenExp::Any, plan, "valid");
            }
            continue;
        }
        let target = format!("/bad/{:x}/{}", cid, i);
        let method = *rng.pick(&["GET", "POST", "PUT", "DELETE", "OPTIONS", "XMETHOD"]);
        match class {
            0 => {
                // fewer than three request-line fields
                // (any of the three fields may be the missing one)
                let line = match rng.below(6) {
                    0 | 1 => format!("{} {}", method, target),
                    2 => method.to_string(),
                    3 => format!("{} HTTP/1.1", method),
                    4 => format!("{} HTTP/1.1", target),
                    _ => "HTTP/1.1".to_string(),
                };
                class_label = format!("reqline-fields:{}", line.split(' ').count());
                p.reqs.push(raw_wire(format!("{}\r\nHost: h\r\n\r\n", line).into_bytes(), &class_label));
                p.exp_responses.push(err_resp(400));
                stopped = true;
            }
            1 => {
                let v = *rng.pick(BAD_VERSIONS);
                class_label = format!("bad-version:{}", v);
                p.reqs.push(raw_wire(format!("{} {} {}\r\nHost: h\r\n\r\n", method, target, v).into_bytes(), &class_label));
                p.exp_responses.push(err_resp(400));
                stopped = true;
            }
            2 => {
                let v = *rng.pick(HIGH_VERSIONS);
                class_label = format!("version-above-1.1:{}", v);
                let with_body = rng.chance(1, 4);
                let mut s = format!("{} {} {}\r\nHost: h\r\n", method, target, v);
                if with_body {
                    s.push_str("Content-Length: 5\r\n\r\nhello");
                    class_label.push_str("+body");
                } else {
                    s.push_str("\r\n");
                }
                p.reqs.push(raw_wire(s.into_bytes(), &class_label));
                p.exp_responses.push(err_resp(505));
                // connection stays usable
            }
            3 => {
                // a line of nothing but whitespace is a header line without a colon too (it is not
                // the empty line that ends the head)
                let l = *rng.pick(&["Foo bar", "Foobar", "NoColonHere value", "X-A", "Content-Length 5", " ", "\t", "  \t ", "\r", "NoColon \t"]);
                class_label = if l.trim().is_empty() { "header-no-colon-blank".to_string() } else { "header-no-colon".to_string() };
                let before = if rng.chance(1, 2) { "Host: h\r\n" } else { "" };
                let ver = *rng.pick(&["HTTP/1.1", "HTTP/1.1", "HTTP/1.0"]);
                p.reqs.push(raw_wire(format!("{} {} {}\r\n{}{}\r\nAccept: */*\r\n\r\n", method, target, ver, before, l).into_bytes(), &class_label));
                p.exp_responses.push(err_resp(400));
                stopped = true;
            }
            4 => {
                class_label = "non-ascii".to_string();
                let mut b = format!("{} {} HTTP/1.1\r\nHost: h\r\nX-Data: abcdef\r\n\r\n", method, target).into_bytes();
                let at = rng.below(b.len() - 4);
                let at = if b[at] == b'\r' || b[at] == b'\n' { 1 } else { at };
                if rng.chance(1, 2) {
                    // a single byte >= 0x80 (hardly ever valid UTF-8)
                    b[at] = 0x80 + rng.below(0x80) as u8;
                } else {
                    // well-formed UTF-8: a letter, or Unicode white space that a `str::trim` would
                    // strip (at the end of the request line or of a header line in particular)
                    let seq: &[u8] = *rng.pick(&[&b"\xc3\xa9"[..], &b"\xc2\xa0"[..], &b"\xe3\x80\x80"[..], &b"\xe2\x80\x83"[..], &b"\xf0\x9f\x98\x80"[..]]);
                    let line_ends: Vec<usize> = (0..b.len() - 1).filter(|i| b[*i] == b'\r' && b[*i + 1] == b'\n' && *i > 0 && b[*i - 1] != b'\n').collect();
                    let pos = if rng.chance(1, 2) && !line_ends.is_empty() { *rng.pick(&line_ends) } else { at };
                    let tail = b.split_off(pos);
                    b.extend_from_slice(seq);
                    b.extend_from_slice(&tail);
                    class_label = "non-ascii-utf8".to_string();
                }
                p.reqs.push(raw_wire(b, &class_label));
                stopped = true;
                silent_close = true;
            }
            _ => {
                let v = *rng.pick(BAD_EXPECTS);
                class_label = format!("expect:{}", v);
                let name = case_name(rng, "Expect");
                let body = if rng.chance(1, 2) { "Content-Length: 5\r\n" } else { "" };
                // the expectation is unsupported whatever the protocol version says
                let ver = *rng.pick(&["HTTP/1.1", "HTTP/1.1", "HTTP/1.0"]);
                if ver == "HTTP/1.0" {
                    class_label.push_str("@1.0");
                }
                let ka = if ver == "HTTP/1.0" && rng.chance(1, 2) { "Connection: keep-alive\r\n" } else { "" };
                p.reqs.push(raw_wire(
                    format!("{} {} {}\r\nHost: h\r\n{}{}{}: {}\r\n\r\n", method, target, ver, ka, body, name, v).into_bytes(),
                    &class_label,
                ));
                p.exp_responses.push(err_resp(417));
                stopped = true;
            }
        }
    }
    let _ = silent_close;
    let last_closes = !stopped
        && p.reqs.last().and_then(|r| r.abs.as_ref()).map(|a| a.header("Connection").is_some()).unwrap_or(false);
    let coarse = class_label.split(':').next().unwrap().to_string();
    let hc = (!last_closes && !stopped) || rng.chance(1, 2);
    let case = p.finish(rng, &coarse, unix, &[], hc, bound_ms);
    let mut judge = Judge::all();
    judge.head_fidelity = false;
    judge.body = false;
    Gen { case, judge, sig: Some(format!("{}|pos{}|n{}|hold{}", class_label, pos, n, hold)), extra: Default::default() }
}

// ---------------------------------------------------------------------------------------------
// C12

const CONN_VALUES: &[&str] = &[
    "", "close", "Close", "CLOSE", "keep-alive", "Keep-Alive", "upgrade", "Upgrade", "x-foo", "keep-alive, x-foo",
    "x-foo, close", "x-foo, keep-alive", "TE", "x-foo, Upgrade", "te, close",
    // an HTTP/1.1 value that names close or upgrade ends the connection whatever else it names
    // (on HTTP/1.0 these are replaced below: the two clauses of the statement disagree there)
    "keep-alive, close", "close, keep-alive", "Keep-Alive, Upgrade", "upgrade, keep-alive", "Keep-Alive, CLOSE",
];

pub fn gen_c12(rng: &mut Rng, caseid: u64, unix: bool, bound_ms: u64) -> Gen {
    let n = rng.range(1, 4);
    let cid = caseid & 0xffff_ffff;
    let mut p = Pipe::new();
    let mut ended_at: Option<usize> = None;
    let mut sig = Vec::new();
    for i in 0..n {
        let version = if rng.chance(1, 3) { (1, 0) } else { (1, 1) };
        // "" = header absent
        let mut cv = *rng.pick(CONN_VALUES);
        // combinations on which the two clauses of the statement disagree are not generated
        let lc = cv.to_ascii_lowercase();
        if version == (1, 0) && lc.contains("keep-alive") && (lc.contains("close") || lc.contains("upgrade")) {
            cv = "keep-alive";
        }
        let target = if ended_at.is_some() { format!("/smuggled/{:x}/{}", cid, i) } else { format!("/v/{:x}/{}", cid, i) };
        let mut a = AbsReq::new("GET", &target, version).h("Host", " h");
        if !cv.is_empty() || rng.chance(1, 10) {
            a.add(&case_name(rng, "Connection"), &format!(" {}", cv));
        }
        let ends = model::ends_connection(version, a.header("Connection"));
        if ended_at.is_some() {
            p.push_undelivered(&a, &[], "after-end");
        } else {
            let mut plan = ReqPlan::simple();
            if lc.contains("upgrade") {
                // the body of an upgrade request is the rest of the connection: do not read it
                plan.read = ReadPlan::None;
            }
            sig.push(format!("{}{}:{}", version.0, version.1, if a.header("Connection").is_some() { cv } else { "<absent>" }));
            p.push_valid(&a, &[], Vec::new(), LenExp::Any, plan, if ends { "ending" } else { "persistent" });
            if ends {
                ended_at = Some(i);
            }
        }
    }
    let tail: Vec<u8> = if ended_at.is_some() && rng.chance(1, 2) {
        rng.pick(&[&b"GARBAGE\r\n\r\n"[..], &b"GET /smuggled/tail HTTP/1.1\r\nHost: h\r\n\r\n"[..], &b"\x00\x01\x02"[..]]).to_vec()
    } else {
        Vec::new()
    };
    let mode = if ended_at.is_some() { rng.below(2) } else { rng.range(1, 3) };
    let mut case = p.finish(rng, if ended_at.is_some() { "ending" } else { "persistent" }, unix, &tail, false, bound_ms);
    let wl = case.wire.len();
    let nexp = case.exp_responses.len();
    match mode {
        0 => {
            // connection-ending request somewhere: the server must close by itself
            case.script = vec![Step::Send(0, wl), Step::AwaitEnd];
        }
        1 => {
            // client half-closes right after sending: everything received is still answered
            case.script = vec![Step::Send(0, wl), Step::HalfClose, Step::AwaitEnd];
        }
        2 => {
            // persistent: all answered while the client keeps the connection open, then a late
            // request on the same connection is served, then half-close
            let a = simple_req(caseid, 99, (1, 1));
            let late = wire_of(&a, &[], "late");
            let from = case.wire.len();
            case.wire.extend_from_slice(&late.bytes);
            case.reqs.push(late);
            case.exp_delivered.push(ExpDelivered { wire_idx: case.reqs.len() - 1, body: Vec::new(), body_length: LenExp::Any });
            case.plans.push(ReqPlan::simple());
            case.exp_responses.push(ok_resp(case.exp_delivered.len() - 1, false));
            case.script = vec![
                Step::Send(0, wl),
                Step::AwaitFinals(nexp),
                Step::SleepUs(rng.range(0, 3000) as u64),
                Step::Send(from, case.wire.len()),
                Step::AwaitFinals(nexp + 1),
                Step::HalfClose,
                Step::AwaitEnd,
            ];
        }
        _ => {
            // half-close after request j only (the rest is never sent)
            let j = rng.range(1, case.reqs.len());
            let cut: usize = case.reqs[..j].iter().map(|r| r.bytes.len()).sum();
            case.exp_delivered.retain(|d| d.wire_idx < j);
            let keep = case.exp_delivered.len();
            case.exp_responses.truncate(keep);
            case.plans.truncate(keep);
            case.script = vec![Step::Send(0, cut), Step::HalfClose, Step::AwaitEnd];
        }
    }
    let mut judge = Judge::all();
    judge.head_fidelity = false;
    judge.body = false;
    let mut withheld = false;
    if rng.chance(1, 5) {
        // variant: a single connection-ending request that carries a streamed body which the
        // application does not read; the client has sent only the beginning of the body and
        // keeps its sending side open. Everything received was answered, so the server must
        // close its sending side right after the response - without waiting for the body.
        withheld = true;
        let version = if rng.chance(1, 2) { (1, 0) } else { (1, 1) };
        let blen = *rng.pick(&[1025usize, 5000, 20000]);
        let mut a = AbsReq::new("POST", &format!("/v/{:x}/w", cid), version).h("Host", " h");
        if version == (1, 1) {
            a.add("Connection", rng.pick_s(&[" close", " Close"]));
        }
        a.add("Content-Length", &format!(" {}", blen));
        let body = gen::body_bytes(caseid, blen, true);
        let mut p2 = Pipe::new();
        let mut plan = ReqPlan::simple();
        plan.read = ReadPlan::None;
        plan.finish = Finish::Respond { status: 413, body_len: 10, declared: true, threshold: None, max_piece: 1000 };
        p2.push_valid(&a, &body, body.clone(), LenExp::Any, plan, "ending-withheld-body");
        case = p2.finish(rng, "ending-withheld-body", unix, &[], false, bound_ms);
        let head_len = case.reqs[0].head_len;
        let sent = head_len + rng.range(0, 300);
        // the client goes away only after it saw the end of the stream
        case.script = vec![Step::Send(0, sent), Step::AwaitFinals(1), Step::AwaitEnd, Step::Close];
    }
    Gen {
        case,
        judge,
        sig: Some(format!("{:?}|mode{}|tail{}|end{:?}|withheld{}", sig, mode, !tail.is_empty(), ended_at, withheld)),
        extra: Default::default(),
    }
}

// ---------------------------------------------------------------------------------------------
// C16

const BAD_CL: &[(&str, &str)] = &[
    ("", "empty"),
    ("+5", "sign"),
    ("-5", "sign"),
    ("+0", "sign"),
    ("5x", "non-digit"),
    ("x5", "non-digit"),
    ("0x10", "non-digit"),
    ("5 5", "mixed"),
    ("5,5", "list"),
    ("5, 6", "list"),
    ("18446744073709551616", "overflow"),
    ("99999999999999999999999", "overflow"),
    ("5.0", "non-digit"),
];

pub fn gen_c16(rng: &mut Rng, caseid: u64, unix: bool, bound_ms: u64) -> Gen {
    let n = rng.range(1, 4);
    let pos = rng.below(n);
    let cid = caseid & 0xffff_ffff;
    let mut p = Pipe::new();
    let mut label = String::new();
    let mut stopped = false;
    for i in 0..n {
        if i != pos {
            if stopped {
                let a = AbsReq::new("GET", &format!("/smuggled/{:x}/after{}", cid, i), (1, 1)).h("Host", " h");
                p.push_undelivered(&a, &[], "after-error");
            } else {
                let a = simple_req(caseid, i, (1, 1));
                p.push_valid(&a, &[], Vec::new(), LenExp::Any, ReqPlan::simple(), "valid");
            }
            continue;
        }
        // bytes after the head: each plausible misreading exposes a different smuggled request
        //   "no body"      -> parses `GET /smuggled/<id>/nobody` (starts right after the head)
        //   "5-byte body"  -> skips 5 bytes, parses `GET /smuggled/<id>/cl5`
        //   "chunked body" -> decodes one chunk, parses `GET /smuggled/<id>/chunked`
        let s_nobody = format!("GET /smuggled/{:x}/nobody HTTP/1.1\r\nHost: e\r\n\r\n", cid);
        let s_cl5 = format!("GET /smuggled/{:x}/cl5 HTTP/1.1\r\nHost: e\r\n\r\n", cid);
        let s_chunked = format!("GET /smuggled/{:x}/chunked HTTP/1.1\r\nHost: e\r\n\r\n", cid);
        let ws = *rng.pick(&[" ", "\t", " \t", "  "]);
        let target = format!("/bad/{:x}/{}", cid, i);
        let which = rng.below(3); // 0 = Content-Length, 1 = Transfer-Encoding, 2 = other header
        let (hname, hval) = match which {
            0 => ("Content-Length".to_string(), "5".to_string()),
            1 => ("Transfer-Encoding".to_string(), "chunked".to_string()),
            _ => (rng.pick(&["X-Custom", "Host2", "Accept", "Cookie"]).to_string(), "abc".to_string()),
        };
        let mutation = rng.below(5);
        let mut head = format!("POST {} HTTP/1.1\r\n", target);
        let first = rng.chance(1, 2);
        if !first {
            head.push_str("Host: h\r\n");
        }
        let after: String;
        match mutation {
            0 => {
                label = format!("ws-line-start/{}", ["cl", "te", "other"][which]);
                head.push_str(&format!("{}{}: {}\r\n", ws, hname, hval));
            }
            1 => {
                label = format!("ws-in-name/{}", ["cl", "te", "other"][which]);
                let cut = rng.range(1, hname.len() - 1);
                head.push_str(&format!("{}{}{}: {}\r\n", &hname[..cut], ws, &hname[cut..], hval));
            }
            2 => {
                label = format!("ws-before-colon/{}", ["cl", "te", "other"][which]);
                head.push_str(&format!("{}{}: {}\r\n", hname, ws, hval));
            }
            3 => {
                // a line made only of whitespace: an (empty) obsolete line folding, it "begins
                // with whitespace" and must not be taken for the end of the head either
                label = "ws-only-line".to_string();
                if rng.chance(1, 2) {
                    head.push_str(&format!("{}: {}\r\n", hname, hval));
                }
                head.push_str(&format!("{}\r\n", ws));
                if rng.chance(1, 2) {
                    head.push_str("X-After: 1\r\n");
                }
            }
            _ => {
                let (v, cls) = *rng.pick(BAD_CL);
                let with_te = rng.chance(1, 3);
                label = format!("bad-content-length/{}{}", cls, if with_te { "+te" } else { "" });
                let pad = *rng.pick(&["", " ", "  "]);
                if with_te && rng.chance(1, 2) {
                    head.push_str("Transfer-Encoding: chunked\r\n");
                    head.push_str(&format!("Content-Length:{}{}\r\n", pad, v));
                } else {
                    head.push_str(&format!("Content-Length:{}{}\r\n", pad, v));
                    if with_te {
                        head.push_str("Transfer-Encoding: chunked\r\n");
                    }
                }
            }
        }
        if first {
            head.push_str("Host: h\r\n");
        }
        head.push_str("\r\n");
        // layout: [s_nobody is not possible together with the others at offset 0]; use
        // "ABCDE" style prefix: 5 filler bytes that themselves start a chunk: "5\r\nXX" is 5 bytes
        // no body    : parses "5\r\nXX..." as a request line -> 400 anyway; so offer the no-body
        //              misreading a real request in half of the cases instead
        if rng.chance(1, 2) {
            after = s_nobody;
        } else {
            // 5 bytes "1\r\nZ\r" + "\n" ... build: chunked reading: "1\r\nZ\r\n0\r\n\r\n" then s_chunked
            // cl=5 reading: skips "1\r\nZ\r" (5 bytes) then sees "\n0\r\n\r\n"... not a request; so
            // put s_cl5 right after 5 filler bytes in the other variant
            if which == 1 || label.ends_with("+te") {
                after = format!("1\r\nZ\r\n0\r\n\r\n{}", s_chunked);
            } else {
                after = format!("HELLO{}", s_cl5);
            }
        }
        let mut bytes = head.into_bytes();
        bytes.extend_from_slice(after.as_bytes());
        p.reqs.push(raw_wire(bytes, &label));
        p.exp_responses.push(err_resp(400));
        stopped = true;
    }
    let coarse = label.clone();
    let hc = rng.chance(1, 2);
    let case = p.finish(rng, &coarse, unix, &[], hc, bound_ms);
    let mut judge = Judge::all();
    judge.head_fidelity = false;
    judge.body = false;
    Gen { case, judge, sig: Some(format!("{}|pos{}|n{}", label, pos, n)), extra: Default::default() }
}

// ---------------------------------------------------------------------------------------------
// C18

pub fn gen_c18(rng: &mut Rng, caseid: u64, unix: bool, bound_ms: u64) -> Gen {
    let cid = caseid & 0xffff_ffff;
    let mut p = Pipe::new();
    let npred = rng.below(3);
    for _ in 0..npred {
        let idx = p.reqs.len();
        let a = simple_req(caseid, idx, (1, 1));
        let mut plan = ReqPlan::simple();
        if rng.chance(1, 3) {
            plan.pre_delay_us = rng.range(0, 3000) as u64;
        }
        p.push_valid(&a, &[], Vec::new(), LenExp::Any, plan, "pred");
    }
    let expecting = rng.chance(4, 5);
    let len = *rng.pick(&[0usize, 5, 1024, 1025, 20000]);
    let chunked = expecting && rng.chance(1, 6);
    let body = gen::body_bytes(caseid, len, false);
    let k = p.exp_delivered.len();
    // a fifth of the (non-chunked) requests say HTTP/1.0: the statement makes no difference
    let v10 = !chunked && rng.chance(1, 5);
    // the statement does not mention the method: half of the requests are not POST
    let method = if rng.chance(1, 2) { "POST" } else { rng.pick_s(&["PUT", "GET", "HEAD", "DELETE", "TRACE", "OPTIONS", "XEXP", "PATCH"]) };
    let mut a = AbsReq::new(method, &format!("/v/{:x}/{}", cid, p.reqs.len()), if v10 { (1, 0) } else { (1, 1) }).h("Host", " h");
    let wire_body = if chunked {
        a.add("Transfer-Encoding", " chunked");
        gen::encode_chunked(&body, &gen::gen_chunking(rng, len, 700))
    } else {
        a.add("Content-Length", &format!(" {}", len));
        body.clone()
    };
    if expecting {
        let v = case_name(rng, "100-continue");
        a.add(&case_name(rng, "Expect"), &format!(" {}", v));
    }
    let program = rng.below(4);
    let (read, calls, plabel) = match program {
        0 => (ReadPlan::None, 1, "no-as_reader"),
        1 => (ReadPlan::ToEof { extra: 0 }, 1, "as_reader-once"),
        2 => (ReadPlan::ToEof { extra: 1 }, 3, "as_reader-many"),
        _ => (ReadPlan::Upto(len / 2 + 1), 1, "partial"),
    };
    let asks = !matches!(read, ReadPlan::None);
    let plan = ReqPlan {
        read,
        read_sizes: read_sizes(rng, len),
        as_reader_calls: calls,
        finish: Finish::Respond { status: 200, body_len: 12, declared: true, threshold: None, max_piece: 1000 },
        pre_delay_us: if rng.chance(1, 3) { rng.range(0, 2000) as u64 } else { 0 },
        zero_read_after: None,
            read_api: ReadApi::Read,
    };
    p.push_valid(&a, &wire_body, body, if chunked { LenExp::Exactly(None) } else { LenExp::Exactly(Some(len)) }, plan, "expecting");
    let interims = if expecting && asks { 1 } else { 0 };
    p.exp_responses.last_mut().unwrap().interims = interims;
    let head_len = p.reqs.last().unwrap().head_len;
    let mut case = p.finish(rng, &format!("{}/{}", if expecting { "expect" } else { "plain" }, plabel), unix, &[], true, bound_ms);
    // script: predecessors and the head in one go; the body only after the interim response
    let total = case.wire.len();
    let body_from = total - (case.reqs.last().unwrap().bytes.len() - head_len);
    let nresp = case.exp_responses.len();
    let mut script = vec![Step::Send(0, body_from)];
    if expecting {
        if asks {
            script.push(Step::AwaitInterims(1));
            script.push(Step::Send(body_from, total));
        } else {
            // no interim response will come: the client sees the final response first and gives up
            script.push(Step::AwaitFinals(nresp));
        }
    } else {
        script.push(Step::Send(body_from, total));
    }
    script.push(Step::AwaitFinals(nresp));
    script.push(Step::HalfClose);
    script.push(Step::AwaitEnd);
    case.script = script;
    let mut judge = Judge::all();
    judge.head_fidelity = false;
    if !asks || program == 3 {
        // body only judged when it was read to its end
        if program == 0 {
            judge.body = false;
        }
    }
    Gen {
        case,
        judge,
        sig: Some(format!("exp{}|len{}|{}|pred{}|chunked{}|v10{}", expecting, len, plabel, npred, chunked, v10)),
        extra: Extra { check_100_timing: if interims == 1 { vec![k] } else { vec![] }, ..Default::default() },
    }
}

// ---------------------------------------------------------------------------------------------
// C04 (native part): HEAD vs GET/POST through real connections, followed by a second request

pub fn gen_c04(rng: &mut Rng, caseid: u64, unix: bool, bound_ms: u64) -> Gen {
    let cid = caseid & 0xffff_ffff;
    let mut p = Pipe::new();
    let method = *rng.pick(&["HEAD", "GET", "POST", "HEAD", "GET"]);
    let version = if rng.chance(1, 3) { (1, 0) } else { (1, 1) };
    let mut a = AbsReq::new(method, &format!("/v/{:x}/0", cid), version).h("Host", " h");
    if version == (1, 0) {
        a.add("Connection", " keep-alive");
    }
    let te = if rng.chance(1, 2) { Some(*rng.pick(crate::p05::TE_VALUES)) } else { None };
    if let Some(t) = te {
        a.add("TE", &format!(" {}", t));
    }
    if method == "POST" {
        a.add("Content-Length", " 0");
    }
    let status = *rng.pick(&[200u16, 200, 201, 204, 206, 301, 304, 404, 500, 999]);
    let body_len = *rng.pick(&[0usize, 1, 100, 1023, 1024, 1025, 8191, 8192, 8193, 32767, 32768, 32769, 100000]);
    let declared = rng.chance(2, 3);
    let threshold = match rng.below(6) {
        0 => None,
        1 => Some(0),
        2 => Some(body_len.saturating_sub(1)),
        3 => Some(body_len),
        4 => Some(body_len + 1),
        _ => Some(usize::MAX),
    };
    let plan = ReqPlan {
        read: ReadPlan::ToEof { extra: 0 },
        read_sizes: vec![4096],
        as_reader_calls: 1,
        finish: Finish::Respond { status, body_len, declared, threshold, max_piece: *rng.pick(&[1usize, 100, 8192, 100000]).max(&(body_len / 5000 + 1)) },
        pre_delay_us: 0,
        zero_read_after: None,
            read_api: ReadApi::Read,
    };
    p.push_valid(&a, &[], Vec::new(), LenExp::Any, plan, "first");
    // the second request proves that the client found the end of the first message
    p.push_simple(caseid, rng.chance(1, 2));
    let last_closes = p.reqs.last().unwrap().abs.as_ref().unwrap().header("Connection").is_some();
    let case = p.finish(rng, &format!("native/{}", method), unix, &[], !last_closes, bound_ms);
    let mut judge = Judge::all();
    judge.head_fidelity = false;
    judge.body = false;
    Gen {
        case,
        judge,
        sig: Some(format!(
            "native|{}|{:?}|{}|{}|{}|{:?}|{:?}",
            method,
            version,
            status,
            body_len,
            declared,
            threshold.map(|t| (t as i128 - body_len as i128).clamp(-2, 2)),
            te
        )),
        extra: Default::default(),
    }
}

// ---------------------------------------------------------------------------------------------

pub fn generate(prop: &str, case_seed: u64, unix: bool, bound_ms: u64) -> Gen {
    let mut rng = Rng::new(case_seed);
    match prop {
        "C02" => gen_c02(&mut rng, case_seed, unix, bound_ms),
        "C03" => gen_c03(&mut rng, case_seed, unix, bound_ms),
        "C04" => gen_c04(&mut rng, case_seed, unix, bound_ms),
        "C09" => gen_c09(&mut rng, case_seed, unix, bound_ms),
        "C10" => gen_c10(&mut rng, case_seed, unix, bound_ms),
        "C12" => gen_c12(&mut rng, case_seed, unix, bound_ms),
        "C16" => gen_c16(&mut rng, case_seed, unix, bound_ms),
        "C18" => gen_c18(&mut rng, case_seed, unix, bound_ms),
        _ => panic!("no conversation generator for {}", prop),
    }
}

/// Per-property checks on top of the generic judge.
fn extra_findings(prop: &str, g: &Gen, obs: &ConvObs) -> Vec<Finding> {
    let mut out = Vec::new();
    if prop == "C18" {
        for k in &g.extra.check_100_timing {
            if let Some(d) = obs.delivered.get(*k) {
                // the interim response for delivery k is the first interim after final k-1
                let mut finals = 0usize;
                for (r, t) in &obs.msgs {
                    if r.is_interim() {
                        if finals == *k && d.t_as_reader_ns > 0 && *t + 0 < d.t_as_reader_ns {
                            out.push(Finding {
                                aspect: "100-before-asked".into(),
                                what: format!(
                                    "100 Continue arrived at the client at {} us, the application first asked for the body at {} us",
                                    t / 1000,
                                    d.t_as_reader_ns / 1000
                                ),
                            });
                        }
                    } else {
                        finals += 1;
                    }
                }
            }
        }
        // no request without the expectation may see an interim response: covered by the
        // interims count of the generic judge (expected 0)
    }
    out
}

pub fn run_one(ctx: &Ctx, env: &Env, prop: &str, case_seed: u64, mode: &str) {
    let bound_ms = 1500;
    let g = generate(prop, case_seed, env.unix, bound_ms);
    let obs = run_conv(env, &g.case);
    let rep = &ctx.rep;
    rep.inc(&format!("class:{}", g.case.label));
    rep.counts.add("requests_on_wire", g.case.reqs.len() as u64);
    rep.counts.add("deliveries", obs.delivered.len() as u64);
    rep.counts.add("responses_parsed", obs.msgs.len() as u64);
    rep.counts.max("max_wire_len", g.case.wire.len() as u64);
    if g.case.wire.len() > 1024 {
        rep.inc("cases_wire_over_1KiB");
    }
    match judge(&g.case, &obs, &g.judge) {
        Verdict::Inconclusive(why) => {
            rep.inconclusive(&why);
        }
        v => {
            let mut findings = match v {
                Verdict::Violated(f) => f,
                _ => Vec::new(),
            };
            findings.extend(extra_findings(prop, &g, &obs));
            rep.eval(g.sig.as_deref());
            if !findings.is_empty() {
                let first = &findings[0];
                rep.violation(Violation {
                    signature: format!("{}/{}/{}", prop, g.case.label, first.aspect),
                    what: first.what.clone(),
                    detail: history_json(&g.case, &obs)
                        .set("findings", J::A(findings.iter().map(|f| J::s(format!("{}: {}", f.aspect, f.what))).collect())),
                    case_seed,
                    mode: mode.to_string(),
                });
            } else if rep.want_sample() && case_seed % 5 == 0 {
                rep.sample(|| {
                    J::obj()
                        .set("class", J::s(&g.case.label))
                        .set("wire", J::S(crate::util::esc(&g.case.wire, 500)))
                        .set("delivered", J::A(obs.delivered.iter().map(|d| J::s(format!("{} {}", d.method, crate::util::esc(d.url.as_bytes(), 50)))).collect()))
                        .set("statuses", J::A(obs.msgs.iter().map(|m| J::u(m.0.status as usize)).collect()))
                        .set("end", J::s(format!("{:?}", obs.end)))
                });
            }
        }
    }
}

/// History perturbation: a handful of earlier connections that died in the middle of a head line
/// (closed or reset), opened together so that every idle worker thread has served one. Whatever
/// state they leave behind must not leak into the conversation that follows.
pub fn debris_burst(env: &Env, seed: u64) {
    let mut rng = Rng::new(seed ^ 0xDEB215);
    let k = rng.range(4, 9);
    let head = b"GET /debris/partial HTTP/1.1\r\nHost: h\r\nX-Filler: aaaaaaaaaaaaaaaaaaaaaaaaaaaaaaaaaaaaaaaa\r\nContent-Length: 3\r\n\r\nabc";
    let mut conns = Vec::new();
    for _ in 0..k {
        if let Ok(c) = crate::net::CStream::connect(&env.addr) {
            conns.push(c);
        }
    }
    for c in conns.iter_mut() {
        // never a complete request: cut somewhere before the end of the head, often mid-line
        let cut = match rng.below(4) {
            0 => rng.range(1, 3),
            1 => rng.range(1, 27),
            _ => rng.range(1, head.len() - 8),
        };
        let _ = c.write_all(&head[..cut]);
    }
    crate::util::sleep_us(300);
    for c in conns.into_iter() {
        if rng.chance(1, 3) {
            c.set_linger0();
        }
        drop(c);
    }
    // let the workers see the end of those connections
    crate::util::sleep_us(1500);
}

pub fn run(ctx: &Ctx) {
    crate::env::install_fp_hook();
    crate::env::track_reads(true);
    let prop = ctx.prop.clone();
    // UNIX transport on a quarter of the shards (remote_addr must be None there)
    let unix_for = |shard: usize| shard % 4 == 3;
    if let Some((cs, mode, repeat)) = &ctx.replay {
        let env = Env::new(mode.starts_with("unix"), 1);
        for _ in 0..(*repeat).max(1) {
            if mode.ends_with("+debris") {
                debris_burst(&env, *cs);
            }
            run_one(ctx, &env, &prop, *cs, mode);
        }
        return;
    }
    let unix = unix_for(ctx.shard);
    let mut rng = Rng::new(ctx.seed ^ (ctx.shard as u64) << 32);
    let _pert = crate::env::perturb_setup(&mut rng, ctx.shard, false);
    let mode = if unix { "unix" } else { "tcp" };
    let mut env = Env::new(unix, 1);
    let mut idx = 0u64;
    while ctx.time_left() {
        if env.cases_run >= 3000 {
            env = Env::new(unix, 1);
        }
        let cs = ctx.case_seed(idx);
        if cs % 16 == 3 {
            debris_burst(&env, cs);
            ctx.rep.inc("cases_after_a_burst_of_connections_cut_mid_head");
            run_one(ctx, &env, &prop, cs, &format!("{}+debris", mode));
        } else {
            run_one(ctx, &env, &prop, cs, mode);
        }
        env.cases_run += 1;
        idx += 1;
        if ctx.rep.n_violations() >= 12 {
            break;
        }
    }
    ctx.rep.set_extra("transport", J::s(mode));
    ctx.rep.set_extra("stray_deliveries", J::I(crate::env::STRAY.load(std::sync::atomic::Ordering::Relaxed) as i64));
    ctx.rep.set_extra(
        "failpoints",
        J::O(crate::env::fp_hits().into_iter().map(|(k, v)| (k, J::I(v as i64))).collect()),
    );
}
