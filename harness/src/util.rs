//! Small self-contained utilities: PRNG, hashing, JSON emitting, clock, affinity, spinners,
//! scheduling-latency calibrator. No external crates except libc.

use std::collections::BTreeMap;
use std::fmt::Write as _;
use std::sync::atomic::{AtomicBool, AtomicU64, Ordering};
use std::sync::{Arc, Mutex, OnceLock};
use std::time::{Duration, Instant};

// ---------------------------------------------------------------------------------------------
// clock

static T0: OnceLock<Instant> = OnceLock::new();

pub fn now_ns() -> u64 {
    T0.get_or_init(Instant::now).elapsed().as_nanos() as u64
}

// ---------------------------------------------------------------------------------------------
// PRNG (splitmix64: tiny, good enough, every choice derives from the seed)

#[derive(Clone, Debug)]
pub struct Rng(pub u64);

impl Rng {
    pub fn new(seed: u64) -> Rng {
        let mut r = Rng(seed ^ 0x9E37_79B9_7F4A_7C15);
        r.next();
        r
    }
    pub fn next(&mut self) -> u64 {
        self.0 = self.0.wrapping_add(0x9E37_79B9_7F4A_7C15);
        let mut z = self.0;
        z = (z ^ (z >> 30)).wrapping_mul(0xBF58_476D_1CE4_E5B9);
        z = (z ^ (z >> 27)).wrapping_mul(0x94D0_49BB_1331_11EB);
        z ^ (z >> 31)
    }
    /// uniform in 0..n (n > 0)
    pub fn below(&mut self, n: usize) -> usize {
        (self.next() % (n as u64)) as usize
    }
    /// uniform in lo..=hi
    pub fn range(&mut self, lo: usize, hi: usize) -> usize {
        lo + self.below(hi - lo + 1)
    }
    pub fn chance(&mut self, num: u32, den: u32) -> bool {
        (self.next() % den as u64) < num as u64
    }
    pub fn pick<'a, T>(&mut self, xs: &'a [T]) -> &'a T {
        &xs[self.below(xs.len())]
    }
    pub fn pick_s<'a>(&mut self, xs: &[&'a str]) -> &'a str {
        xs[self.below(xs.len())]
    }
    pub fn shuffle<T>(&mut self, xs: &mut [T]) {
        for i in (1..xs.len()).rev() {
            let j = self.below(i + 1);
            xs.swap(i, j);
        }
    }
    pub fn fork(&mut self) -> Rng {
        Rng::new(self.next())
    }
}

pub fn mix(a: u64, b: u64, c: u64) -> u64 {
    let mut r = Rng::new(a);
    let x = r.next() ^ b.wrapping_mul(0xD6E8_FEB8_6659_FD93);
    let mut r = Rng::new(x);
    let y = r.next() ^ c.wrapping_mul(0xA076_1D64_78BD_642F);
    Rng::new(y).next()
}

pub fn fnv(s: &[u8]) -> u64 {
    let mut h: u64 = 0xcbf29ce484222325;
    for b in s {
        h ^= *b as u64;
        h = h.wrapping_mul(0x100000001b3);
    }
    h
}

/// Deterministic payload byte: a function of (stream tag, offset); never CR/LF so that a
/// payload cannot accidentally look like a line ending.
pub fn pat_byte(tag: u64, off: usize) -> u8 {
    let x = tag
        .wrapping_mul(0x9E37_79B9_7F4A_7C15)
        .wrapping_add((off as u64).wrapping_mul(0xC2B2_AE3D_27D4_EB4F));
    let v = ((x >> 29) ^ (x >> 7)) as u8;
    // map into 0x20..0x7e (printable) to keep histories readable
    0x21 + (v % 0x5d)
}

pub fn pattern(tag: u64, len: usize) -> Vec<u8> {
    (0..len).map(|i| pat_byte(tag, i)).collect()
}

// ---------------------------------------------------------------------------------------------
// JSON value + emitter

#[derive(Clone, Debug)]
pub enum J {
    Null,
    B(bool),
    I(i64),
    F(f64),
    S(String),
    A(Vec<J>),
    O(Vec<(String, J)>),
}

impl J {
    pub fn obj() -> J {
        J::O(Vec::new())
    }
    pub fn set(mut self, k: &str, v: J) -> J {
        if let J::O(ref mut m) = self {
            m.push((k.to_string(), v));
        }
        self
    }
    pub fn put(&mut self, k: &str, v: J) {
        if let J::O(ref mut m) = self {
            m.push((k.to_string(), v));
        }
    }
    pub fn s<T: AsRef<str>>(x: T) -> J {
        J::S(x.as_ref().to_string())
    }
    pub fn u(x: usize) -> J {
        J::I(x as i64)
    }
    pub fn bytes(x: &[u8]) -> J {
        J::S(esc(x, 400))
    }
    pub fn from_counts(m: &BTreeMap<String, u64>) -> J {
        J::O(m.iter().map(|(k, v)| (k.clone(), J::I(*v as i64))).collect())
    }
    pub fn write(&self, out: &mut String) {
        match self {
            J::Null => out.push_str("null"),
            J::B(b) => out.push_str(if *b { "true" } else { "false" }),
            J::I(i) => {
                let _ = write!(out, "{}", i);
            }
            J::F(f) => {
                if f.is_finite() {
                    let _ = write!(out, "{}", f);
                } else {
                    out.push_str("null");
                }
            }
            J::S(s) => {
                out.push('"');
                for c in s.chars() {
                    match c {
                        '"' => out.push_str("\\\""),
                        '\\' => out.push_str("\\\\"),
                        '\n' => out.push_str("\\n"),
                        '\r' => out.push_str("\\r"),
                        '\t' => out.push_str("\\t"),
                        c if (c as u32) < 0x20 => {
                            let _ = write!(out, "\\u{:04x}", c as u32);
                        }
                        c => out.push(c),
                    }
                }
                out.push('"');
            }
            J::A(v) => {
                out.push('[');
                for (i, x) in v.iter().enumerate() {
                    if i > 0 {
                        out.push(',');
                    }
                    x.write(out);
                }
                out.push(']');
            }
            J::O(v) => {
                out.push('{');
                for (i, (k, x)) in v.iter().enumerate() {
                    if i > 0 {
                        out.push(',');
                    }
                    J::S(k.clone()).write(out);
                    out.push(':');
                    x.write(out);
                }
                out.push('}');
            }
        }
    }
    pub fn to_string(&self) -> String {
        let mut s = String::new();
        self.write(&mut s);
        s
    }
}

/// Human-readable escape of a byte string (printable ASCII kept, the rest \xNN), shortened in
/// the middle when longer than `max`.
pub fn esc(b: &[u8], max: usize) -> String {
    fn one(out: &mut String, c: u8) {
        match c {
            b'\r' => out.push_str("\\r"),
            b'\n' => out.push_str("\\n"),
            b'\t' => out.push_str("\\t"),
            b'\\' => out.push_str("\\\\"),
            0x20..=0x7e => out.push(c as char),
            _ => {
                let _ = write!(out, "\\x{:02x}", c);
            }
        }
    }
    let mut out = String::new();
    if b.len() <= max {
        for c in b {
            one(&mut out, *c);
        }
    } else {
        let h = max / 2;
        for c in &b[..h] {
            one(&mut out, *c);
        }
        let _ = write!(out, "...[{} bytes]...", b.len() - 2 * h);
        for c in &b[b.len() - h..] {
            one(&mut out, *c);
        }
    }
    out
}

// ---------------------------------------------------------------------------------------------
// threads: every harness thread is named "vh-*" so that library threads can be told apart

pub fn spawn_named<F, T>(name: &str, f: F) -> std::thread::JoinHandle<T>
where
    F: FnOnce() -> T + Send + 'static,
    T: Send + 'static,
{
    let mut n = String::from("vh-");
    n.push_str(name);
    n.truncate(15);
    std::thread::Builder::new()
        .name(n)
        .spawn(move || {
            crate::alloc::mark_harness_thread();
            f()
        })
        .expect("spawn harness thread")
}

/// Number of threads of this process that were *not* created by the harness
/// (comm does not start with "vh-"), minus the main thread.
pub fn library_thread_count() -> usize {
    let mut n = 0usize;
    if let Ok(rd) = std::fs::read_dir("/proc/self/task") {
        for e in rd.flatten() {
            let p = e.path().join("comm");
            if let Ok(c) = std::fs::read_to_string(&p) {
                if !c.trim_end().starts_with("vh-") {
                    n += 1;
                }
            }
        }
    }
    n.saturating_sub(1)
}

// ---------------------------------------------------------------------------------------------
// CPU affinity and spinners (cheap schedule perturbation)

pub fn set_affinity(ncpus: usize, first: usize) {
    let total = std::thread::available_parallelism().map(|n| n.get()).unwrap_or(1);
    let total = total.max(1);
    unsafe {
        let mut set: libc::cpu_set_t = std::mem::zeroed();
        libc::CPU_ZERO(&mut set);
        for i in 0..ncpus.min(total) {
            libc::CPU_SET((first + i) % total, &mut set);
        }
        libc::sched_setaffinity(0, std::mem::size_of::<libc::cpu_set_t>(), &set);
    }
}

pub fn online_cpus() -> usize {
    unsafe {
        let mut set: libc::cpu_set_t = std::mem::zeroed();
        if libc::sched_getaffinity(0, std::mem::size_of::<libc::cpu_set_t>(), &mut set) == 0 {
            return libc::CPU_COUNT(&set) as usize;
        }
    }
    1
}

pub struct Spinners {
    stop: Arc<AtomicBool>,
    handles: Vec<std::thread::JoinHandle<()>>,
}

impl Spinners {
    pub fn start(n: usize) -> Spinners {
        let stop = Arc::new(AtomicBool::new(false));
        let mut handles = Vec::new();
        for i in 0..n {
            let stop = stop.clone();
            handles.push(spawn_named(&format!("spin{}", i), move || {
                let mut x = 1u64;
                while !stop.load(Ordering::Relaxed) {
                    for _ in 0..2000 {
                        x = x.wrapping_mul(6364136223846793005).wrapping_add(1442695040888963407);
                    }
                    std::hint::black_box(x);
                    // let others in now and then: a spinner is a disturbance, not a denial of service
                    if x % 64 == 0 {
                        std::thread::yield_now();
                    }
                }
            }));
        }
        Spinners { stop, handles }
    }
}

impl Drop for Spinners {
    fn drop(&mut self) {
        self.stop.store(true, Ordering::Relaxed);
        for h in self.handles.drain(..) {
            let _ = h.join();
        }
    }
}

// ---------------------------------------------------------------------------------------------
// calibrator: "was this process being scheduled?" (condition 2 of the stall oracle)

static CAL_MAX_NS: AtomicU64 = AtomicU64::new(0);
static CAL_TICKS: AtomicU64 = AtomicU64::new(0);
static CAL_STARTED: AtomicBool = AtomicBool::new(false);

pub fn calibrator_start() {
    if CAL_STARTED.swap(true, Ordering::SeqCst) {
        return;
    }
    spawn_named("calib", || loop {
        let t = Instant::now();
        std::thread::sleep(Duration::from_millis(1));
        let over = t.elapsed().saturating_sub(Duration::from_millis(1)).as_nanos() as u64;
        CAL_MAX_NS.fetch_max(over, Ordering::Relaxed);
        CAL_TICKS.fetch_add(1, Ordering::Relaxed);
    });
}

pub struct CalWindow {
    ticks0: u64,
    t0: Instant,
}

impl CalWindow {
    /// Opens a window: resets the maximum overshoot.
    pub fn open() -> CalWindow {
        calibrator_start();
        CAL_MAX_NS.store(0, Ordering::Relaxed);
        CalWindow { ticks0: CAL_TICKS.load(Ordering::Relaxed), t0: Instant::now() }
    }
    /// (max overshoot of a 1 ms sleep in the window, number of calibrator ticks in the window)
    pub fn read(&self) -> (Duration, u64) {
        (
            Duration::from_nanos(CAL_MAX_NS.load(Ordering::Relaxed)),
            CAL_TICKS.load(Ordering::Relaxed) - self.ticks0,
        )
    }
    /// The process was demonstrably scheduled during the window: the calibrator ticked at
    /// least at a third of the nominal rate and never overshot by more than `limit`.
    pub fn healthy(&self, limit: Duration) -> bool {
        let (over, ticks) = self.read();
        let el = self.t0.elapsed().as_millis() as u64;
        over < limit && ticks * 3 >= el.saturating_sub(5)
    }
}

// ---------------------------------------------------------------------------------------------
// counters

#[derive(Default)]
pub struct Counts(pub Mutex<BTreeMap<String, u64>>);

impl Counts {
    pub fn inc(&self, k: &str) {
        self.add(k, 1);
    }
    pub fn add(&self, k: &str, n: u64) {
        let mut m = self.0.lock().unwrap();
        *m.entry(k.to_string()).or_insert(0) += n;
    }
    pub fn max(&self, k: &str, n: u64) {
        let mut m = self.0.lock().unwrap();
        let e = m.entry(k.to_string()).or_insert(0);
        if n > *e {
            *e = n;
        }
    }
}

pub fn sleep_us(us: u64) {
    std::thread::sleep(Duration::from_micros(us));
}

/// Busy-wait until `deadline_ns` (clock of `now_ns`); used for sub-millisecond phase shaping.
pub fn spin_until(deadline_ns: u64) {
    while now_ns() < deadline_ns {
        std::hint::spin_loop();
    }
}

// ---------------------------------------------------------------------------------------------
// abort reporter: which case was running when the process was killed by abort()
// (a panic while panicking, an allocation failure ... cannot be caught in-process)

pub static CURRENT_CASE: AtomicU64 = AtomicU64::new(0);
/// up to eight ASCII bytes naming the replay mode of the current case
pub static CURRENT_MODE: AtomicU64 = AtomicU64::new(0);
pub static CURRENT_MODE2: AtomicU64 = AtomicU64::new(0);
static SIDE_FD: std::sync::atomic::AtomicI32 = std::sync::atomic::AtomicI32::new(-1);

pub fn current_case(seed: u64, mode: &str) {
    let mut m = [0u8; 16];
    for (i, b) in mode.bytes().take(16).enumerate() {
        m[i] = b;
    }
    CURRENT_MODE.store(u64::from_le_bytes(m[..8].try_into().unwrap()), Ordering::Relaxed);
    CURRENT_MODE2.store(u64::from_le_bytes(m[8..].try_into().unwrap()), Ordering::Relaxed);
    CURRENT_CASE.store(seed, Ordering::Relaxed);
}

extern "C" fn on_abort(_sig: libc::c_int) {
    // async-signal-safe: format into a stack buffer, one write(2)
    let fd = SIDE_FD.load(Ordering::Relaxed);
    if fd < 0 {
        return;
    }
    let mut buf = [0u8; 64];
    let mut n = 0;
    for b in b"ABORTED " {
        buf[n] = *b;
        n += 1;
    }
    let mut v = CURRENT_CASE.load(Ordering::Relaxed);
    let mut digits = [0u8; 20];
    let mut k = 0;
    loop {
        digits[k] = b'0' + (v % 10) as u8;
        k += 1;
        v /= 10;
        if v == 0 {
            break;
        }
    }
    while k > 0 {
        k -= 1;
        buf[n] = digits[k];
        n += 1;
    }
    buf[n] = b' ';
    n += 1;
    for w in [CURRENT_MODE.load(Ordering::Relaxed), CURRENT_MODE2.load(Ordering::Relaxed)] {
        for b in w.to_le_bytes() {
            if b != 0 {
                buf[n] = b;
                n += 1;
            }
        }
    }
    buf[n] = b'\n';
    n += 1;
    unsafe {
        libc::write(fd, buf.as_ptr() as *const libc::c_void, n);
    }
    // returning lets abort() finish the job with the default action
}

/// Installs a SIGABRT handler that appends "ABORTED <case seed> <mode>" to $VH_SIDE_FILE.
pub fn install_abort_reporter() {
    if let Ok(p) = std::env::var("VH_SIDE_FILE") {
        if let Ok(c) = std::ffi::CString::new(p) {
            let fd = unsafe { libc::open(c.as_ptr(), libc::O_WRONLY | libc::O_CREAT | libc::O_APPEND, 0o644) };
            if fd >= 0 {
                SIDE_FD.store(fd, Ordering::Relaxed);
                unsafe {
                    libc::signal(libc::SIGABRT, on_abort as extern "C" fn(libc::c_int) as usize);
                }
            }
        }
    }
}

/// Factor applied to wall-clock bounds (VH_TIME_SCALE, set by the orchestrator for the
/// sanitizer builds, which run 4-7 times slower than the release build).
pub fn time_scale() -> u64 {
    static SCALE: std::sync::OnceLock<u64> = std::sync::OnceLock::new();
    *SCALE.get_or_init(|| std::env::var("VH_TIME_SCALE").ok().and_then(|s| s.parse().ok()).filter(|v| *v >= 1 && *v <= 20).unwrap_or(1))
}
