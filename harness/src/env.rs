//! Server-side environment of a worker: one real `tiny_http::Server` on a loopback TCP port or a
//! UNIX socket, dispatcher threads calling `recv()`, the current case's application, the
//! failpoint hook (perturbation + observation) and the panic hook.

use crate::net::Addr;
use crate::util::{now_ns, spawn_named, Rng};
use std::collections::HashMap;
use std::sync::atomic::{AtomicBool, AtomicU32, AtomicU64, AtomicUsize, Ordering};
use std::sync::{Arc, Condvar, Mutex, OnceLock};
use std::time::{Duration, Instant};
use tiny_http::{Request, Response, Server};

// ---------------------------------------------------------------------------------------------
// panic hook: marker panics (deliberate handler panics) are ignored, everything else recorded

pub const PANIC_MARKER: &str = "vh-marker-panic";

#[derive(Clone, Debug)]
pub struct PanicRec {
    pub thread: String,
    pub message: String,
    pub location: String,
    pub t_ns: u64,
}

static PANICS: Mutex<Vec<PanicRec>> = Mutex::new(Vec::new());

pub fn install_panic_hook() {
    std::panic::set_hook(Box::new(|info| {
        let msg = if let Some(s) = info.payload().downcast_ref::<&str>() {
            s.to_string()
        } else if let Some(s) = info.payload().downcast_ref::<String>() {
            s.clone()
        } else {
            "<non-string payload>".to_string()
        };
        if msg.contains(PANIC_MARKER) {
            return;
        }
        let loc = info.location().map(|l| format!("{}:{}", l.file(), l.line())).unwrap_or_default();
        let th = std::thread::current().name().unwrap_or("<unnamed>").to_string();
        if let Ok(mut p) = PANICS.lock() {
            if p.len() < 5 {
                eprintln!(
                    "vh: panic in thread {}: {} at {} [case {}]",
                    th,
                    msg,
                    loc,
                    crate::util::CURRENT_CASE.load(Ordering::Relaxed)
                );
            }
            if p.len() < 1000 {
                p.push(PanicRec { thread: th, message: msg, location: loc, t_ns: now_ns() });
            }
        }
    }));
}

pub fn panics_take() -> Vec<PanicRec> {
    std::mem::take(&mut *PANICS.lock().unwrap())
}

pub fn panics_peek() -> Vec<PanicRec> {
    PANICS.lock().unwrap().clone()
}

pub fn panics_count() -> usize {
    PANICS.lock().unwrap().len()
}

// ---------------------------------------------------------------------------------------------
// failpoint hook

pub const NFP: usize = 16;
static FP_HITS: [AtomicU64; NFP] = [const { AtomicU64::new(0) }; NFP];
/// bit i set: failpoint i may be delayed
static FP_DELAY_MASK: AtomicU32 = AtomicU32::new(0);
/// probability (per mille) of a delay at an enabled failpoint
static FP_DELAY_PERMILLE: AtomicU32 = AtomicU32::new(0);
static FP_DELAY_MAX_US: AtomicU32 = AtomicU32::new(0);
static FP_SEED: AtomicU64 = AtomicU64::new(1);
static FP_DELAYS: AtomicU64 = AtomicU64::new(0);
static TRACK_READS: AtomicBool = AtomicBool::new(false);
static DISPATCH_NEW: AtomicU64 = AtomicU64::new(0);
static DISPATCH_QUEUED: AtomicU64 = AtomicU64::new(0);
static DISPATCH_QMAX: AtomicUsize = AtomicUsize::new(0);

#[derive(Default, Clone, Debug)]
pub struct PortReads {
    pub total: usize,
    pub reads: Vec<usize>,
    pub ended: bool,
    pub last_ns: u64,
}

struct ReadTrack {
    m: Mutex<HashMap<u16, PortReads>>,
    cv: Condvar,
}

static READS: OnceLock<ReadTrack> = OnceLock::new();

fn reads() -> &'static ReadTrack {
    READS.get_or_init(|| ReadTrack { m: Mutex::new(HashMap::new()), cv: Condvar::new() })
}

thread_local! {
    static FP_RNG: std::cell::Cell<u64> = const { std::cell::Cell::new(0) };
}

fn fp_hook(id: u32, a: usize, b: usize) {
    let _not_library = crate::alloc::HarnessSection::enter();
    let i = (id as usize).min(NFP - 1);
    FP_HITS[i].fetch_add(1, Ordering::Relaxed);
    use tiny_http::verif as v;
    match id {
        v::FP_POOL_WORKER_LOOP => crate::alloc::set_key(0),
        _ => {}
    }
    match id {
        v::FP_SOCK_READ => {
            // this thread works for the connection with client port `a`
            crate::alloc::set_key(a as u32);
            if TRACK_READS.load(Ordering::Relaxed) {
                let rt = reads();
                let mut m = rt.m.lock().unwrap();
                let e = m.entry(a as u16).or_default();
                e.last_ns = now_ns();
                if b == usize::MAX || b == 0 {
                    e.ended = true;
                } else {
                    e.total += b;
                    if e.reads.len() < 100_000 {
                        e.reads.push(b);
                    }
                }
                rt.cv.notify_all();
            }
            return;
        }
        v::FP_POOL_DISPATCH => {
            // observation only: called under the pool mutex, never sleep here
            if a == 0 {
                DISPATCH_NEW.fetch_add(1, Ordering::Relaxed);
            } else {
                DISPATCH_QUEUED.fetch_add(1, Ordering::Relaxed);
                DISPATCH_QMAX.fetch_max(b, Ordering::Relaxed);
            }
            return;
        }
        _ => {}
    }
    let mask = FP_DELAY_MASK.load(Ordering::Relaxed);
    if mask & (1 << i) == 0 {
        return;
    }
    let pm = FP_DELAY_PERMILLE.load(Ordering::Relaxed);
    if pm == 0 {
        return;
    }
    let r = FP_RNG.with(|c| {
        let mut s = c.get();
        if s == 0 {
            s = FP_SEED.fetch_add(0x9E37_79B9_7F4A_7C15, Ordering::Relaxed) | 1;
        }
        s ^= s << 13;
        s ^= s >> 7;
        s ^= s << 17;
        c.set(s);
        s
    });
    if (r % 1000) as u32 >= pm {
        return;
    }
    FP_DELAYS.fetch_add(1, Ordering::Relaxed);
    let max = FP_DELAY_MAX_US.load(Ordering::Relaxed) as u64;
    match (r >> 20) % 3 {
        0 => std::thread::yield_now(),
        _ => {
            let us = if max == 0 { 0 } else { (r >> 24) % (max + 1) };
            if us < 60 {
                let t = Instant::now();
                while (t.elapsed().as_micros() as u64) < us {
                    std::hint::spin_loop();
                }
            } else {
                std::thread::sleep(Duration::from_micros(us));
            }
        }
    }
}

pub fn install_fp_hook() {
    tiny_http::verif::set_hook(Some(Arc::new(fp_hook)));
}

/// Configure seeded delays at the failpoints in `ids`.
pub fn fp_configure(seed: u64, ids: &[u32], permille: u32, max_us: u32) {
    FP_SEED.store(seed | 1, Ordering::Relaxed);
    let mut mask = 0u32;
    for i in ids {
        mask |= 1 << i;
    }
    FP_DELAY_MASK.store(mask, Ordering::Relaxed);
    FP_DELAY_PERMILLE.store(permille, Ordering::Relaxed);
    FP_DELAY_MAX_US.store(max_us, Ordering::Relaxed);
}

pub fn fp_hits() -> Vec<(String, u64)> {
    let names = [
        "", "FP_SEQW_TURN", "FP_RESPOND_PRE_FLUSH", "FP_READER_HANDOFF", "FP_CONN_PRE_PUSH", "FP_ACCEPTED",
        "FP_POOL_SPAWN", "FP_POOL_WORKER_LOOP", "FP_SOCK_READ", "FP_POOL_DISPATCH", "FP_DROP_WOKE_ACCEPT",
    ];
    let mut v = Vec::new();
    for (i, n) in names.iter().enumerate() {
        if !n.is_empty() {
            v.push((n.to_string(), FP_HITS[i].load(Ordering::Relaxed)));
        }
    }
    v.push(("delays_injected".into(), FP_DELAYS.load(Ordering::Relaxed)));
    v
}

pub fn dispatch_counters() -> (u64, u64, usize) {
    (
        DISPATCH_NEW.load(Ordering::Relaxed),
        DISPATCH_QUEUED.load(Ordering::Relaxed),
        DISPATCH_QMAX.load(Ordering::Relaxed),
    )
}

pub fn track_reads(on: bool) {
    TRACK_READS.store(on, Ordering::SeqCst);
    if !on {
        reads().m.lock().unwrap().clear();
    }
}

pub fn reads_forget(port: u16) {
    reads().m.lock().unwrap().remove(&port);
}

pub fn reads_of(port: u16) -> PortReads {
    reads().m.lock().unwrap().get(&port).cloned().unwrap_or_default()
}

/// Wait until the server is done with the connection of client port `port`: its read returned
/// EOF/error, or it has not read from it for `idle` (at most `timeout`).
pub fn wait_connection_quiet(port: u16, idle: Duration, timeout: Duration) -> bool {
    let t0 = Instant::now();
    loop {
        let (ended, last) = {
            let m = reads().m.lock().unwrap();
            m.get(&port).map(|e| (e.ended, e.last_ns)).unwrap_or((false, 0))
        };
        if ended {
            return true;
        }
        if last > 0 && now_ns().saturating_sub(last) > idle.as_nanos() as u64 {
            return true;
        }
        if last == 0 && t0.elapsed() > idle * 4 {
            return true;
        }
        if t0.elapsed() > timeout {
            return false;
        }
        std::thread::sleep(Duration::from_micros(200));
    }
}

/// Wait until the server has consumed at least `n` bytes from the connection with client
/// port `port` (or the connection ended), at most `timeout`. Returns true if reached.
pub fn wait_consumed(port: u16, n: usize, timeout: Duration) -> bool {
    let rt = reads();
    let deadline = Instant::now() + timeout;
    let mut m = rt.m.lock().unwrap();
    loop {
        let e = m.get(&port);
        if let Some(e) = e {
            if e.total >= n || e.ended {
                return e.total >= n;
            }
        }
        let now = Instant::now();
        if now >= deadline {
            return false;
        }
        let (g, _) = rt.cv.wait_timeout(m, deadline - now).unwrap();
        m = g;
    }
}

// ---------------------------------------------------------------------------------------------
// environment

pub trait CaseApp: Send + Sync {
    /// does this request (by client port; 0 on UNIX sockets) belong to the case?
    fn accepts(&self, port: u16, rq: &Request) -> bool;
    fn on_request(&self, rq: Request);
}

static UNIX_SEQ: AtomicU64 = AtomicU64::new(0);
static SERVERS_CREATED: AtomicU64 = AtomicU64::new(0);

/// Connection tasks accepted but not yet finished by a pool worker, derived from failpoint
/// hits: every accepted connection hits FP_ACCEPTED, every worker hits FP_POOL_WORKER_LOOP once
/// when it starts idle (4 per server) and once after each finished task. Only meaningful while
/// every server of this process was created through `Env::new` after `install_fp_hook`.
pub fn tasks_in_flight() -> i64 {
    use tiny_http::verif as v;
    let accepted = FP_HITS[v::FP_ACCEPTED as usize].load(Ordering::SeqCst) as i64;
    let loops = FP_HITS[v::FP_POOL_WORKER_LOOP as usize].load(Ordering::SeqCst) as i64;
    let servers = SERVERS_CREATED.load(Ordering::SeqCst) as i64;
    accepted - (loops - 4 * servers)
}

pub fn accepted_count() -> u64 {
    FP_HITS[tiny_http::verif::FP_ACCEPTED as usize].load(Ordering::SeqCst)
}

/// Wait until at least `accepted_target` connections were accepted and no connection task is
/// running any more.
pub fn wait_tasks_done(accepted_target: u64, timeout: Duration) -> bool {
    let t0 = Instant::now();
    loop {
        if accepted_count() >= accepted_target && tasks_in_flight() <= 0 {
            return true;
        }
        if t0.elapsed() > timeout {
            return false;
        }
        std::thread::sleep(Duration::from_micros(100));
    }
}
pub static STRAY: AtomicU64 = AtomicU64::new(0);
pub static CTL_SERVED: AtomicU64 = AtomicU64::new(0);

pub struct Env {
    pub server: Arc<Server>,
    pub addr: Addr,
    pub unix: bool,
    cur: Arc<Mutex<Option<Arc<dyn CaseApp>>>>,
    dispatchers: Vec<std::thread::JoinHandle<()>>,
    pub cases_run: u64,
    pub born: Instant,
}

/// Method token of control requests: longer than any method the generators produce (<= 12
/// characters), so that a generated request can never be mistaken for a control request.
pub const CTL_METHOD: &str = "VHCONTROLPROBE0123456789";

pub fn is_control(rq: &Request) -> bool {
    rq.method().as_str() == CTL_METHOD
}

pub fn default_handler(rq: Request) {
    if is_control(&rq) {
        CTL_SERVED.fetch_add(1, Ordering::Relaxed);
        let _ = rq.respond(Response::from_string("ctl"));
    } else {
        // never on the dispatcher thread: answering/dropping a request of an abandoned
        // conversation is a library call that (on a defective tree) may not return
        STRAY.fetch_add(1, Ordering::Relaxed);
        let url = rq.url().chars().take(80).collect::<String>();
        let id = STRAY.load(Ordering::Relaxed);
        STRAYS_OPEN.lock().unwrap().push((id, url, Instant::now()));
        spawn_named("stray", move || {
            let _ = rq.respond(Response::from_string("stray").with_status_code(299));
            STRAYS_OPEN.lock().unwrap().retain(|s| s.0 != id);
        });
    }
}

static STRAYS_OPEN: Mutex<Vec<(u64, String, Instant)>> = Mutex::new(Vec::new());

/// Requests of abandoned conversations whose answering has not returned for longer than `age`.
pub fn strays_stuck(age: Duration) -> Vec<String> {
    STRAYS_OPEN.lock().unwrap().iter().filter(|s| s.2.elapsed() > age).map(|s| s.1.clone()).collect()
}

impl Env {
    pub fn new(unix: bool, ndispatch: usize) -> Env {
        let (server, addr) = if unix {
            let dir = std::env::current_exe().unwrap().parent().unwrap().join("socks");
            let _ = std::fs::create_dir_all(&dir);
            let p = dir.join(format!("s-{}-{}", std::process::id(), UNIX_SEQ.fetch_add(1, Ordering::Relaxed)));
            let _ = std::fs::remove_file(&p);
            let s = Server::http_unix(&p).expect("bind unix");
            (s, Addr::Unix(p))
        } else {
            let s = Server::http("127.0.0.1:0").expect("bind tcp");
            let a = s.server_addr().to_ip().unwrap();
            (s, Addr::Tcp(a))
        };
        SERVERS_CREATED.fetch_add(1, Ordering::SeqCst);
        let server = Arc::new(server);
        let cur: Arc<Mutex<Option<Arc<dyn CaseApp>>>> = Arc::new(Mutex::new(None));
        let mut dispatchers = Vec::new();
        for i in 0..ndispatch {
            let server = server.clone();
            let cur = cur.clone();
            dispatchers.push(spawn_named(&format!("disp{}", i), move || loop {
                let r = crate::alloc::lib(|| server.recv());
                match r {
                    Ok(rq) => {
                        let port = rq.remote_addr().map(|a| a.port()).unwrap_or(0);
                        let app = cur.lock().unwrap().clone();
                        // a panic in a handler (that is a finding for the panic hook) must not
                        // take the dispatcher with it
                        let _ = std::panic::catch_unwind(std::panic::AssertUnwindSafe(|| match app {
                            Some(app) if app.accepts(port, &rq) => app.on_request(rq),
                            _ => default_handler(rq),
                        }));
                    }
                    Err(_) => break,
                }
            }));
        }
        Env { server, addr, unix, cur, dispatchers, cases_run: 0, born: Instant::now() }
    }

    pub fn set_app(&self, app: Option<Arc<dyn CaseApp>>) {
        *self.cur.lock().unwrap() = app;
    }

    /// Control operation for the stall oracle: a fresh connection with a plain GET must be
    /// answered. Returns the round-trip time.
    pub fn control(&self, timeout: Duration) -> Option<Duration> {
        let t = Instant::now();
        let mut c = crate::net::Client::connect(&self.addr).ok()?;
        if !c.send(format!("{} /ctl HTTP/1.1\r\nHost: c\r\nConnection: close\r\n\r\n", CTL_METHOD).as_bytes()) {
            return None;
        }
        match c.await_finals(1, &|_| false, timeout) {
            crate::net::Got::Msg if c.msgs.last().map(|m| m.0.status) == Some(200) => Some(t.elapsed()),
            _ => None,
        }
    }
}

impl Drop for Env {
    fn drop(&mut self) {
        *self.cur.lock().unwrap() = None;
        for _ in 0..self.dispatchers.len() {
            self.server.unblock();
        }
        for h in self.dispatchers.drain(..) {
            let _ = h.join();
        }
    }
}

/// Perturbation profile of a shard, derived from its seed.
pub struct Perturb {
    pub cpus: usize,
    pub spinners: usize,
    pub _spin: Option<crate::util::Spinners>,
    pub desc: String,
}

pub fn perturb_setup(rng: &mut Rng, shard: usize, allow_spin: bool) -> Perturb {
    let total = crate::util::online_cpus();
    let choices = [total, total, 4, 2, 1, 1];
    let cpus = (*rng.pick(&choices)).min(total).max(1);
    if cpus < total {
        crate::util::set_affinity(cpus, (shard * 3) % total);
    }
    let spinners = if allow_spin && rng.chance(1, 3) { rng.range(1, 2) } else { 0 };
    let spin = if spinners > 0 { Some(crate::util::Spinners::start(spinners)) } else { None };
    Perturb { cpus, spinners, _spin: spin, desc: format!("cpus={} spinners={}", cpus, spinners) }
}
