//! C01 – pipelined responses leave in request order and are never interleaved.
//! C06 – exactly one final response per delivered request; a dropped request gets a 500.
//! Both drive one pipelined connection whose requests are answered by several threads in
//! seeded orders, with failpoint delays between the library's critical sections.

use crate::conv::*;
use crate::env::Env;
use crate::gen::{self, AbsReq};
use crate::pconv::{read_sizes, simple_req, Pipe};
use crate::report::Violation;
use crate::util::{Rng, J};
use crate::Ctx;
use tiny_http::verif as v;

fn gen_finish_c01(rng: &mut Rng) -> Finish {
    match rng.below(12) {
        0..=4 => {
            let body_len = *rng.pick(&[10usize, 1023, 1025, 3000, 40000, 0, 1024]);
            Finish::Respond { status: 200, body_len, declared: true, threshold: None, max_piece: *rng.pick(&[1000usize, 100000]) }
        }
        5..=6 => {
            // chunked: undeclared length, pieces of random size, larger than the 8 KiB chunk buffer
            let body_len = *rng.pick(&[9000usize, 20000, 100, 8192]);
            Finish::Respond { status: 200, body_len, declared: false, threshold: None, max_piece: *rng.pick(&[50usize, 3000, 100000]) }
        }
        7..=9 => {
            let nparts = rng.range(1, 5);
            let body_len = *rng.pick(&[0usize, 10, 1500, 5000]);
            let mut parts: Vec<(usize, bool)> = (0..nparts).map(|_| (rng.range(1, 900), rng.chance(1, 2))).collect();
            if rng.chance(1, 4) {
                // flush() before the first write: a part of no bytes, flushed (write_all of an empty
                // slice makes no write call); the flush has to wait for the writer's turn like a write
                parts.insert(0, (0, true));
            }
            Finish::Writer { status: 200, body_len, parts, early_drop_sleep_us: if rng.chance(1, 3) { rng.range(0, 1500) as u64 } else { 0 }, vectored: rng.chance(1, 3) }
        }
        10 => Finish::Drop,
        _ => {
            if rng.chance(1, 3) {
                Finish::WriterPanic
            } else {
                Finish::WriterNothing
            }
        }
    }
}

fn gen_sched(rng: &mut Rng, n: usize, gate_ok: bool) -> Sched {
    match rng.below(5) {
        0 => Sched::SingleThread,
        1 | 2 if gate_ok => {
            let mut perm: Vec<usize> = (0..n).collect();
            rng.shuffle(&mut perm);
            let gaps = (0..n).map(|_| if rng.chance(1, 2) { 0 } else { rng.range(0, 2000) as u64 }).collect();
            Sched::Gate { perm, gaps_us: gaps }
        }
        _ => Sched::Immediate,
    }
}

fn segmented_script(rng: &mut Rng, case: &ConvCase, half_close: bool) -> Vec<Step> {
    let total = case.wire.len();
    let mut s = Vec::new();
    match rng.below(3) {
        0 => s.push(Step::Send(0, total)),
        1 => {
            // cut at request boundaries with small gaps: the connection thread parses further
            // requests while handlers are already answering
            let mut pos = 0;
            let mut from = 0;
            for (i, r) in case.reqs.iter().enumerate() {
                pos += r.bytes.len();
                if i + 1 == case.reqs.len() || rng.chance(1, 2) {
                    s.push(Step::Send(from, pos));
                    from = pos;
                    if i + 1 != case.reqs.len() {
                        s.push(Step::SleepUs(rng.range(0, 1500) as u64));
                    }
                }
            }
            if from < total {
                s.push(Step::Send(from, total));
            }
        }
        _ => {
            let k = rng.range(2, 4);
            let ends = gen::random_splits(rng, total, k);
            s.push(Step::SendPaced { from: 0, ends, pause_us: rng.range(100, 1200) as u64 });
        }
    }
    if half_close {
        s.push(Step::HalfClose);
    }
    s.push(Step::AwaitEnd);
    s
}

pub fn gen_c01(rng: &mut Rng, caseid: u64, unix: bool, bound_ms: u64) -> (ConvCase, Option<String>) {
    let n = rng.range(2, 8);
    let mut p = Pipe::new();
    let mut kinds = Vec::new();
    // a fifth of the pipelines end with a malformed request, which the connection answers by
    // itself (400, then close): that response has to wait for its turn like any other
    let bad_tail = rng.chance(1, 5);
    for i in 0..n {
        let mut a = simple_req(caseid, i, (1, 1));
        if i + 1 == n && !bad_tail {
            a.add("Connection", " close");
        }
        let finish = gen_finish_c01(rng);
        let plan = ReqPlan {
            read: ReadPlan::None,
            read_sizes: vec![4096],
            as_reader_calls: 1,
            finish,
            pre_delay_us: if rng.chance(1, 2) { rng.range(0, 2000) as u64 } else { 0 },
            zero_read_after: None,
            read_api: ReadApi::Read,
        };
        kinds.push(match &plan.finish {
            Finish::Respond { declared: false, .. } => "chunked".to_string(),
            Finish::Respond { body_len, .. } if *body_len > 1024 => "id>1k".to_string(),
            Finish::Respond { .. } => "id<=1k".to_string(),
            Finish::Writer { parts, .. } => format!("writer{}", parts.len()),
            f => format!("{:?}", f).chars().take(8).collect(),
        });
        p.push_valid(&a, &[], Vec::new(), LenExp::Any, plan, "pipelined");
    }
    if bad_tail {
        let bytes: &[u8] = match rng.below(3) {
            0 => b"BROKEN-REQUEST-LINE\r\n\r\n",
            1 => b"GET /v/bad HTTP/1.1\r\nHost: h\r\nNoColonInThisLine\r\n\r\n",
            _ => b"GET /v/bad HTTP/7.7x\r\nHost: h\r\n\r\n",
        };
        p.push_rejected(bytes.to_vec(), "malformed-tail", 400);
        kinds.push("bad-tail".to_string());
    }
    let mut sched = gen_sched(rng, n, true);
    // rarely: one early request is answered only after more than five seconds while the later
    // ones are answered at once (their writers wait for their turn all that time)
    let long_hold = rng.chance(1, 1500);
    let mut bound_ms = bound_ms;
    if long_hold {
        let who = rng.below(n - 1);
        p.plans[who].pre_delay_us = 5_200_000 + rng.range(0, 600_000) as u64;
        sched = Sched::Immediate;
        bound_ms = 9000;
    }
    let mut case = p.finish(rng, "pipeline", unix, &[], false, bound_ms);
    case.script = segmented_script(rng, &case, false);
    let sl = match &sched {
        Sched::Immediate => "immediate".to_string(),
        Sched::SingleThread => "single-thread".to_string(),
        Sched::Gate { perm, .. } => format!("gate{:?}", perm),
    };
    case.sched = sched;
    let sig = format!("n{}|{:?}|{}|hold{}", n, kinds, sl, long_hold);
    (case, Some(sig))
}

pub fn gen_c06(rng: &mut Rng, caseid: u64, unix: bool, bound_ms: u64) -> (ConvCase, Option<String>) {
    let n = rng.range(1, 6);
    let cid = caseid & 0xffff_ffff;
    let mut p = Pipe::new();
    let mut kinds = Vec::new();
    let mut all_small = true;
    let last_upgrade = rng.chance(1, 8);
    // a quarter of the trials: the connection stays open after the last request (no
    // `Connection: close`); the client waits for all the responses and only then leaves. An
    // answer that is left sitting in a buffer until the connection is torn down shows here.
    let keep_open = !last_upgrade && rng.chance(1, 4);
    let mut upgrade_reads = false;
    for i in 0..n {
        let last = i + 1 == n;
        let bkind = rng.below(5);
        let mut a = AbsReq::new(if bkind == 0 { "GET" } else { "POST" }, &format!("/v/{:x}/{}", cid, i), (1, 1)).h("Host", " h");
        let (len, wire_body, designated): (usize, Vec<u8>, Vec<u8>) = match bkind {
            0 => (0, Vec::new(), Vec::new()),
            1 | 2 => {
                let len = *rng.pick(&[1usize, 100, 1024]);
                let d = gen::body_bytes(caseid ^ i as u64, len, false);
                a.add("Content-Length", &format!(" {}", len));
                (len, d.clone(), d)
            }
            3 => {
                all_small = false;
                let len = *rng.pick(&[1025usize, 5000, 30000]);
                let d = gen::body_bytes(caseid ^ i as u64, len, false);
                a.add("Content-Length", &format!(" {}", len));
                (len, d.clone(), d)
            }
            _ => {
                all_small = false;
                let len = *rng.pick(&[10usize, 3000]);
                let d = gen::body_bytes(caseid ^ i as u64, len, false);
                a.add("Transfer-Encoding", " chunked");
                let ch = gen::gen_chunking(rng, len, 700);
                (len, gen::encode_chunked(&d, &ch), d)
            }
        };
        if rng.chance(1, 5) {
            a.add("TE", rng.pick_s(&[" chunked", " trailers, chunked;q=0.5", " identity", " chunked;q=0.1, identity;q=0.9", " gzip, chunked"]));
        }
        // chunked bodies are read to the end: an unread chunked body is C09's subject
        let read = if bkind == 4 {
            ReadPlan::ToEof { extra: 0 }
        } else {
            match rng.below(3) {
                0 => ReadPlan::None,
                1 => ReadPlan::Upto(len / 2),
                _ => ReadPlan::ToEof { extra: 0 },
            }
        };
        let upgrade_here = last && last_upgrade && bkind == 0;
        if upgrade_here {
            a.add("Connection", " upgrade");
            a.add("Upgrade", " vproto");
        } else if last && !keep_open {
            a.add("Connection", " close");
        }
        let broken_here = last && !upgrade_here && !keep_open && rng.chance(1, 12);
        let finish = if upgrade_here {
            // half of them: the handler keeps the upgraded stream and reads from it until the
            // client is done (the usual pattern); the client waits for the 101 before it goes on
            upgrade_reads = rng.chance(1, 2);
            Finish::Upgrade { read: upgrade_reads, write: 0 }
        } else if broken_here {
            let body_len = *rng.pick(&[100usize, 3000, 20000]);
            Finish::RespondBrokenBody { declared: rng.chance(1, 2), body_len, fail_after: rng.below(body_len), panic: rng.chance(1, 2) }
        } else {
            match rng.below(10) {
                0..=3 => Finish::Respond {
                    status: *rng.pick(&[200u16, 201, 404, 500, 204]),
                    body_len: *rng.pick(&[0usize, 10, 2000, 40000]),
                    declared: rng.chance(2, 3),
                    threshold: None,
                    max_piece: 100000,
                },
                4..=5 => Finish::Writer {
                    status: *rng.pick(&[200u16, 418]),
                    body_len: *rng.pick(&[0usize, 10, 3000]),
                    parts: {
                        let mut parts: Vec<(usize, bool)> = (0..rng.range(1, 4)).map(|_| (rng.range(1, 900), rng.chance(1, 2))).collect();
                        if rng.chance(1, 4) {
                            parts.insert(0, (0, true));
                        }
                        parts
                    },
                    early_drop_sleep_us: 0,
                    vectored: rng.chance(1, 3),
                },
                6..=7 => Finish::Drop,
                8 => Finish::Panic,
                // now and then (never for the last request) the raw writer is taken and dropped
                // with nothing written: that request has no response of its own, and the ones
                // around it must still get exactly theirs
                _ => {
                    if !last && rng.chance(1, 2) {
                        Finish::WriterNothing
                    } else {
                        Finish::Panic
                    }
                }
            }
        };
        let plan = ReqPlan {
            read: if upgrade_here { ReadPlan::None } else { read },
            read_sizes: read_sizes(rng, len),
            as_reader_calls: 1,
            finish,
            pre_delay_us: if rng.chance(1, 2) { rng.range(0, 2000) as u64 } else { 0 },
            zero_read_after: None,
            read_api: ReadApi::Read,
        };
        kinds.push(format!("{}:{}:{}", bkind, plan.read_label(len), plan.finish_label()));
        p.push_valid(&a, &wire_body, designated, LenExp::Any, plan, "pipelined");
    }
    let sched = gen_sched(rng, n, all_small);
    let nonfirst_dropped = p.plans.iter().enumerate().any(|(i, pl)| i > 0 && matches!(pl.finish, Finish::Drop | Finish::Panic));
    // the last request has a streamed Content-Length body that the handler does not read to the
    // end: the client may hold the rest of the body back until it has seen the response. The
    // response (a 500 for a dropped request) must not wait for the body.
    let last_streamed_unread = {
        let lp = p.plans.last().unwrap();
        let lr = p.reqs.last().unwrap();
        let cl_big = lr.abs.as_ref().and_then(|a| a.header("Content-Length")).and_then(|v| v.parse::<usize>().ok()).map_or(false, |l| l > 1024);
        // not with the raw writer: `into_writer` consumes the request and with it the body reader,
        // whose discard-on-drop waits for the rest of the body *before* the writer is handed out.
        // That is how the library is built (the property says nothing about when a raw writer
        // becomes available), so holding the body back there would demand more than the statement.
        cl_big && !matches!(lp.read, ReadPlan::ToEof { .. }) && matches!(lp.finish, Finish::Respond { .. } | Finish::Drop | Finish::Panic)
    };
    let withhold = last_streamed_unread && !keep_open && rng.chance(1, 2);
    let mut case = p.finish(rng, "pipeline", unix, &[], false, bound_ms);
    case.script = segmented_script(rng, &case, false);
    if upgrade_reads {
        let nresp = case.exp_responses.len();
        case.script.pop(); // AwaitEnd
        case.script.push(Step::AwaitFinals(nresp));
        case.script.push(Step::HalfClose);
        case.script.push(Step::AwaitEnd);
    }
    if keep_open {
        case.exp_eof = false;
        let nresp = case.exp_responses.len();
        case.script.pop(); // AwaitEnd
        case.script.push(Step::AwaitFinals(nresp));
        case.script.push(Step::Close);
    }
    if withhold {
        let total = case.wire.len();
        let last = case.reqs.last().unwrap();
        let body_len = last.bytes.len() - last.head_len;
        // everything up to a little into the last body, the rest only after all responses
        let keep_back = body_len - rng.range(0, 600.min(body_len - 1));
        let nresp = case.exp_responses.len();
        case.script = vec![
            Step::Send(0, total - keep_back),
            Step::AwaitFinals(nresp),
            Step::Send(total - keep_back, total),
            Step::AwaitEnd,
        ];
        if let Some(pl) = case.plans.last_mut() {
            // a partial read must stay within what was sent
            pl.read = ReadPlan::None;
        }
    }
    let sl = match &sched {
        Sched::Immediate => "immediate",
        Sched::SingleThread => "single-thread",
        Sched::Gate { .. } => "gate",
    };
    case.sched = sched;
    let sig = format!("n{}|{:?}|{}|nfd{}|wh{}|ko{}|ur{}", n, kinds, sl, nonfirst_dropped, withhold, keep_open, upgrade_reads);
    (case, Some(sig))
}

fn run_one(ctx: &Ctx, env: &Env, c06: bool, case_seed: u64, mode: &str) {
    let mut rng = Rng::new(case_seed);
    let (case, sig) = if c06 { gen_c06(&mut rng, case_seed, env.unix, 1500) } else { gen_c01(&mut rng, case_seed, env.unix, 1500) };
    let prop = if c06 { "C06" } else { "C01" };
    let obs = run_conv(env, &case);
    let rep = &ctx.rep;
    let mut j = Judge::all();
    j.head_fidelity = false;
    j.body = c06;
    j.finish_ok = false; // raw writers to a pipelined peer: results of respond are C15's business
    // non-trivial (C01): the order in which handlers started answering differs from arrival order
    let mut starts: Vec<(u64, usize)> = obs.delivered.iter().filter(|d| d.t_finish_start_ns > 0).map(|d| (d.t_finish_start_ns, d.k)).collect();
    starts.sort();
    let reordered = starts.windows(2).any(|w| w[0].1 > w[1].1);
    if reordered {
        rep.inc("trials_answer_order_differs_from_request_order");
    }
    let threads: std::collections::HashSet<&str> = obs.delivered.iter().map(|d| d.thread.as_str()).collect();
    if threads.len() > 1 {
        rep.inc("trials_with_several_answering_threads");
    }
    rep.counts.add("responses_parsed", obs.msgs.len() as u64);
    rep.counts.add("deliveries", obs.delivered.len() as u64);
    rep.inc(&format!("sched:{}", match case.sched { Sched::Immediate => "immediate", Sched::SingleThread => "single-thread", Sched::Gate { .. } => "gate" }));
    for p in &case.plans {
        rep.inc(&format!("action:{}", p.finish_label()));
    }
    if c06 && case.plans.iter().enumerate().any(|(i, pl)| i > 0 && matches!(pl.finish, Finish::Drop | Finish::Panic)) {
        rep.inc("trials_with_non_first_request_dropped");
    }
    if case.bound_ms >= 9000 {
        rep.inc("trials_with_an_answer_withheld_for_over_5s");
    }
    let broken_last = matches!(case.plans.last().map(|p| &p.finish), Some(Finish::RespondBrokenBody { .. }));
    let verdict = if broken_last {
        // The last response is cut short by the application's own failing body reader, so the
        // stream cannot be parsed to its end. What the property asks is decidable on the raw bytes:
        // exactly one status line per request, none added for the request whose body broke.
        let n_status = obs.raw.windows(9).filter(|w| *w == b"HTTP/1.1 ").count();
        let want = case.exp_responses.len();
        // A body of undeclared length that has to go out with identity framing (the request's TE
        // header prefers identity) is read to its end *before* the head is written: when the
        // application's reader fails there, nothing at all can have been sent for that request,
        // and the statement does not ask the library to make up a response for a failing
        // application reader. One status line fewer is accepted in that case only.
        let undeclared = matches!(case.plans.last().map(|p| &p.finish), Some(Finish::RespondBrokenBody { declared: false, .. }));
        if obs.timed_out.is_some() && !obs.healthy {
            Verdict::Inconclusive("timeout, not healthy".into())
        } else if undeclared && n_status + 1 == want && obs.timed_out.is_none() {
            Verdict::Held
        } else if n_status != want {
            Verdict::Violated(vec![Finding {
                aspect: if n_status > want {
                    "extra-status-line-after-broken-body".into()
                } else if obs.timed_out.is_some() {
                    "response-missing-stall".into()
                } else {
                    "status-line-missing".into()
                },
                what: format!("{} status lines on the wire for {} requests (the last response's body reader failed in the application)", n_status, want),
            }])
        } else if obs.end == crate::net::End::Open {
            Verdict::Violated(vec![Finding { aspect: "no-eof-stall".into(), what: "connection not closed after the broken response to a Connection: close request".into() }])
        } else {
            Verdict::Held
        }
    } else {
        judge(&case, &obs, &j)
    };
    match verdict {
        Verdict::Inconclusive(why) => rep.inconclusive(&why),
        Verdict::Held => {
            let nontrivial = if c06 { true } else { reordered || threads.len() > 1 };
            rep.eval(if nontrivial { sig.as_deref() } else { None });
            if rep.want_sample() && case_seed % 7 == 0 {
                rep.sample(|| {
                    J::obj()
                        .set("n_requests", J::u(case.reqs.len()))
                        .set("schedule", J::s(format!("{:?}", case.sched)))
                        .set("actions", J::A(case.plans.iter().map(|p| J::s(format!("{:?}", p.finish).chars().take(120).collect::<String>())).collect()))
                        .set("handler_start_order", J::A(starts.iter().map(|s| J::u(s.1)).collect()))
                        .set("statuses_on_wire", J::A(obs.msgs.iter().map(|m| J::u(m.0.status as usize)).collect()))
                        .set("end", J::s(format!("{:?}", obs.end)))
                });
            }
        }
        Verdict::Violated(findings) => {
            rep.eval(sig.as_deref());
            let first = &findings[0];
            let class = if case.plans.iter().any(|p| matches!(p.finish, Finish::WriterNothing | Finish::WriterPanic)) { "pipeline+empty-writer" } else { "pipeline" };
            rep.violation(Violation {
                signature: format!("{}/{}/{}", prop, class, first.aspect),
                what: first.what.clone(),
                detail: history_json(&case, &obs).set("findings", J::A(findings.iter().map(|f| J::s(format!("{}: {}", f.aspect, f.what))).collect())),
                case_seed,
                mode: mode.to_string(),
            });
        }
    }
}

pub fn run(ctx: &Ctx, c06: bool) {
    crate::env::install_fp_hook();
    crate::env::track_reads(true);
    if let Some((cs, mode, repeat)) = &ctx.replay {
        let env = Env::new(mode.starts_with("unix"), 1);
        crate::env::fp_configure(*cs, &[v::FP_SEQW_TURN, v::FP_RESPOND_PRE_FLUSH, v::FP_READER_HANDOFF, v::FP_CONN_PRE_PUSH], 150, 300);
        for _ in 0..(*repeat).max(1) {
            run_one(ctx, &env, c06, *cs, mode);
        }
        return;
    }
    let unix = ctx.shard % 5 == 4;
    let mut rng = Rng::new(ctx.seed ^ ((ctx.shard as u64) << 32) ^ 0xC01);
    let pert = crate::env::perturb_setup(&mut rng, ctx.shard, true);
    let permille = *rng.pick(&[0u32, 50, 150, 400]);
    crate::env::fp_configure(
        ctx.seed ^ ctx.shard as u64,
        &[v::FP_SEQW_TURN, v::FP_RESPOND_PRE_FLUSH, v::FP_READER_HANDOFF, v::FP_CONN_PRE_PUSH],
        permille,
        300,
    );
    let mode = if unix { "unix" } else { "tcp" };
    let mut env = Env::new(unix, 1);
    let mut idx = 0u64;
    while ctx.time_left() {
        if env.cases_run >= 2000 {
            env = Env::new(unix, 1);
        }
        run_one(ctx, &env, c06, ctx.case_seed(idx), mode);
        env.cases_run += 1;
        idx += 1;
        if ctx.rep.n_violations() >= 12 {
            break;
        }
    }
    ctx.rep.set_extra("perturbation", J::s(format!("{} fp_delay_permille={}", pert.desc, permille)));
    ctx.rep.set_extra("transport", J::s(mode));
    ctx.rep.set_extra("failpoints", J::O(crate::env::fp_hits().into_iter().map(|(k, v)| (k, J::I(v as i64))).collect()));
}
