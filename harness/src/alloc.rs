//! Counting global allocator (C14). It charges an allocation to "the library" iff the
//! allocating thread is a library thread (any thread the harness did not create and mark), or a
//! harness thread that is currently *inside* a library call (flag set by `LibCall`).
//! The harness's own buffers (generators, logs, multi-megabyte request lines) are not charged.

use std::alloc::{GlobalAlloc, Layout, System};
use std::cell::Cell;
use std::sync::atomic::{AtomicBool, AtomicU64, Ordering};

pub struct Counting;

thread_local! {
    // 0 = library thread (default for every thread the harness did not mark)
    // 1 = harness thread, outside library calls
    // 2.. = harness thread inside (nested) library calls
    static MODE: Cell<u32> = const { Cell::new(0) };
}

static TRACK: AtomicBool = AtomicBool::new(false);
static MAX_SINGLE: AtomicU64 = AtomicU64::new(0);
static VOLUME: AtomicU64 = AtomicU64::new(0);
static NALLOC: AtomicU64 = AtomicU64::new(0);

// Per-connection attribution: a library thread (or a harness thread inside a library call) works
// for the connection whose client port is stored in CUR_KEY (set by the socket-read failpoint on
// connection threads and by the handler wrappers); 0 = unknown.
thread_local! {
    static CUR_KEY: Cell<u32> = const { Cell::new(0) };
}
const NKEYS: usize = 65536;
static KEY_MAX: [AtomicU64; NKEYS] = [const { AtomicU64::new(0) }; NKEYS];
static KEY_VOL: [AtomicU64; NKEYS] = [const { AtomicU64::new(0) }; NKEYS];

pub fn set_key(k: u32) {
    let _ = CUR_KEY.try_with(|c| c.set(k));
}

pub fn key_reset(k: u16) {
    KEY_MAX[k as usize].store(0, Ordering::SeqCst);
    KEY_VOL[k as usize].store(0, Ordering::SeqCst);
}

pub fn key_stats(k: u16) -> AllocStats {
    AllocStats { max_single: KEY_MAX[k as usize].load(Ordering::SeqCst), volume: KEY_VOL[k as usize].load(Ordering::SeqCst), count: 0 }
}

static TRACE_OVER: AtomicU64 = AtomicU64::new(u64::MAX);
static TRACE_TEXT: std::sync::Mutex<String> = std::sync::Mutex::new(String::new());

/// Diagnostics: remember the backtrace of the first counted allocation larger than `bytes`.
pub fn trace_allocations_over(bytes: u64) {
    TRACE_OVER.store(bytes, Ordering::SeqCst);
}

pub fn take_trace() -> String {
    std::mem::take(&mut *TRACE_TEXT.lock().unwrap())
}

#[inline]
fn charge(size: usize) {
    if !TRACK.load(Ordering::Relaxed) {
        return;
    }
    let counted = MODE.try_with(|m| m.get() != 1).unwrap_or(false);
    if counted {
        if size as u64 > TRACE_OVER.load(Ordering::Relaxed) {
            // capture outside the accounting: mark this thread as harness while we allocate
            let prev = MODE.try_with(|m| m.replace(1)).unwrap_or(1);
            let bt = std::backtrace::Backtrace::force_capture().to_string();
            if let Ok(mut t) = TRACE_TEXT.try_lock() {
                if t.is_empty() {
                    *t = format!("allocation of {} bytes:\n{}", size, bt);
                }
            }
            let _ = MODE.try_with(|m| m.set(prev));
        }
        MAX_SINGLE.fetch_max(size as u64, Ordering::Relaxed);
        VOLUME.fetch_add(size as u64, Ordering::Relaxed);
        NALLOC.fetch_add(1, Ordering::Relaxed);
        let k = CUR_KEY.try_with(|c| c.get()).unwrap_or(0) as usize % NKEYS;
        KEY_MAX[k].fetch_max(size as u64, Ordering::Relaxed);
        KEY_VOL[k].fetch_add(size as u64, Ordering::Relaxed);
    }
}

unsafe impl GlobalAlloc for Counting {
    unsafe fn alloc(&self, l: Layout) -> *mut u8 {
        charge(l.size());
        System.alloc(l)
    }
    unsafe fn dealloc(&self, p: *mut u8, l: Layout) {
        System.dealloc(p, l)
    }
    unsafe fn alloc_zeroed(&self, l: Layout) -> *mut u8 {
        charge(l.size());
        System.alloc_zeroed(l)
    }
    unsafe fn realloc(&self, p: *mut u8, l: Layout, new_size: usize) -> *mut u8 {
        charge(new_size);
        System.realloc(p, l, new_size)
    }
}

pub fn mark_harness_thread() {
    let _ = MODE.try_with(|m| {
        if m.get() == 0 {
            m.set(1)
        }
    });
}

/// RAII guard: the current (harness) thread is inside a library call until dropped.
pub struct LibCall(());

impl LibCall {
    pub fn enter() -> LibCall {
        let _ = MODE.try_with(|m| {
            if m.get() >= 1 {
                m.set(m.get() + 1)
            }
        });
        LibCall(())
    }
}

impl Drop for LibCall {
    fn drop(&mut self) {
        let _ = MODE.try_with(|m| {
            if m.get() >= 2 {
                m.set(m.get() - 1)
            }
        });
    }
}

/// RAII guard: code of the harness that runs on a library thread (failpoint hook) is not
/// charged to the library.
pub struct HarnessSection(u32);

impl HarnessSection {
    pub fn enter() -> HarnessSection {
        HarnessSection(MODE.try_with(|m| m.replace(1)).unwrap_or(1))
    }
}

impl Drop for HarnessSection {
    fn drop(&mut self) {
        let _ = MODE.try_with(|m| m.set(self.0));
    }
}

/// Run `f` charged to the library.
pub fn lib<T>(f: impl FnOnce() -> T) -> T {
    let _g = LibCall::enter();
    f()
}

#[derive(Debug, Clone, Copy, Default)]
pub struct AllocStats {
    pub max_single: u64,
    pub volume: u64,
    pub count: u64,
}

pub fn track_begin() {
    MAX_SINGLE.store(0, Ordering::Relaxed);
    VOLUME.store(0, Ordering::Relaxed);
    NALLOC.store(0, Ordering::Relaxed);
    TRACK.store(true, Ordering::SeqCst);
}

pub fn track_read() -> AllocStats {
    AllocStats {
        max_single: MAX_SINGLE.load(Ordering::Relaxed),
        volume: VOLUME.load(Ordering::Relaxed),
        count: NALLOC.load(Ordering::Relaxed),
    }
}

pub fn track_end() -> AllocStats {
    TRACK.store(false, Ordering::SeqCst);
    track_read()
}
