//! Per-shard result collection. Every worker writes one JSON document; `/verif/check` merges
//! the shards, applies the known-findings file and writes the evidence file.

use crate::util::{Counts, J};
use std::collections::{BTreeMap, HashSet};
use std::sync::Mutex;

#[derive(Clone, Debug)]
pub struct Violation {
    /// stable signature naming the failing input class or call site (known-findings key)
    pub signature: String,
    /// one human sentence
    pub what: String,
    /// everything needed to look at it: case description, history, observed vs expected
    pub detail: J,
    /// seed of the case (replay: `vh replay <prop> --case-seed <n>`)
    pub case_seed: u64,
    /// mode/sub-workload the case belongs to
    pub mode: String,
}

pub struct Reporter {
    pub prop: String,
    pub evaluations: Mutex<u64>,
    pub sigs: Mutex<HashSet<u64>>,
    pub trivial: Mutex<u64>,
    pub inconclusive: Mutex<Vec<String>>,
    pub counts: Counts,
    pub samples: Mutex<Vec<J>>,
    pub violations: Mutex<Vec<Violation>>,
    pub extra: Mutex<BTreeMap<String, J>>,
    pub max_samples: usize,
    pub max_violations: usize,
}

impl Reporter {
    pub fn new(prop: &str) -> Reporter {
        Reporter {
            prop: prop.to_string(),
            evaluations: Mutex::new(0),
            sigs: Mutex::new(HashSet::new()),
            trivial: Mutex::new(0),
            inconclusive: Mutex::new(Vec::new()),
            counts: Counts::default(),
            samples: Mutex::new(Vec::new()),
            violations: Mutex::new(Vec::new()),
            extra: Mutex::new(BTreeMap::new()),
            max_samples: 4,
            max_violations: 20,
        }
    }

    /// One case evaluated. `sig` = Some(class signature) when the case is non-trivial by the
    /// property's rule, None when it is trivial.
    pub fn eval(&self, sig: Option<&str>) {
        *self.evaluations.lock().unwrap() += 1;
        match sig {
            Some(s) => {
                self.sigs.lock().unwrap().insert(crate::util::fnv(s.as_bytes()));
            }
            None => {
                *self.trivial.lock().unwrap() += 1;
            }
        }
    }

    pub fn evals(&self) -> u64 {
        *self.evaluations.lock().unwrap()
    }

    pub fn inc(&self, k: &str) {
        self.counts.inc(k)
    }

    pub fn sample(&self, f: impl FnOnce() -> J) {
        let mut s = self.samples.lock().unwrap();
        if s.len() < self.max_samples {
            s.push(f());
        }
    }

    pub fn want_sample(&self) -> bool {
        self.samples.lock().unwrap().len() < self.max_samples
    }

    pub fn inconclusive(&self, why: &str) {
        let mut v = self.inconclusive.lock().unwrap();
        if v.len() < 50 {
            v.push(why.to_string());
        } else {
            v.push(String::new());
        }
    }

    pub fn violation(&self, v: Violation) {
        let mut vs = self.violations.lock().unwrap();
        self.counts.inc(&format!("violation:{}", v.signature));
        // keep at most max_violations, but at least one per distinct signature
        let same = vs.iter().filter(|x| x.signature == v.signature).count();
        if same < 3 && vs.len() < self.max_violations {
            vs.push(v);
        }
    }

    pub fn n_violations(&self) -> usize {
        self.violations.lock().unwrap().len()
    }

    pub fn set_extra(&self, k: &str, v: J) {
        self.extra.lock().unwrap().insert(k.to_string(), v);
    }

    pub fn to_json(&self, seed: u64, shard: usize, wall_s: f64) -> J {
        let sigs: Vec<J> = self
            .sigs
            .lock()
            .unwrap()
            .iter()
            .map(|h| J::S(format!("{:016x}", h)))
            .collect();
        let inc = self.inconclusive.lock().unwrap();
        let viol: Vec<J> = self
            .violations
            .lock()
            .unwrap()
            .iter()
            .map(|v| {
                J::obj()
                    .set("signature", J::s(&v.signature))
                    .set("timing", J::B(is_timing_verdict(&v.signature)))
                    .set("what", J::s(&v.what))
                    .set("case_seed", J::S(v.case_seed.to_string()))
                    .set("mode", J::s(&v.mode))
                    .set("detail", v.detail.clone())
            })
            .collect();
        let mut o = J::obj()
            .set("type", J::s("shard"))
            .set("property", J::s(&self.prop))
            .set("seed", J::I(seed as i64))
            .set("shard", J::u(shard))
            .set("wall_s", J::F(wall_s))
            .set("evaluations", J::I(*self.evaluations.lock().unwrap() as i64))
            .set("trivial", J::I(*self.trivial.lock().unwrap() as i64))
            .set("sigs", J::A(sigs))
            .set("inconclusive", J::u(inc.len()))
            .set(
                "inconclusive_reasons",
                J::A(inc.iter().filter(|s| !s.is_empty()).take(10).map(J::s).collect()),
            )
            .set("counts", J::from_counts(&self.counts.0.lock().unwrap()))
            .set("samples", J::A(self.samples.lock().unwrap().clone()))
            .set("violations", J::A(viol));
        let extra = self.extra.lock().unwrap();
        if !extra.is_empty() {
            o.put("extra", J::O(extra.iter().map(|(k, v)| (k.clone(), v.clone())).collect()));
        }
        o
    }
}

/// A verdict that rests on a wall-clock bound ("did not happen within ...") as opposed to one
/// that rests on observed content. The orchestrator does not believe the former when it measured
/// heavy CPU load from processes that are not part of the check (they become inconclusive).
pub fn is_timing_verdict(signature: &str) -> bool {
    const KEYS: &[&str] = &[
        "-stall",
        "no-eof",
        "not-delivered",
        "unanswered",
        "lost-wakeup",
        "no-response",
        "served-only-after",
        "waited-for-answer",
        "handler-blocked",
        "stopped-serving",
        "fewer-receivers",
        "request-discarded",
        "slow-return",
        "not-returned",
        "final-release-count",
        "queued-while",
        "returned-late",
        "try_recv-blocked",
        "not-reclaimed",
        "no-dispatch",
        "threads-left",
        "still-accepting",
        "accepting-again",
        "date-not-now",
        "request-count",
    ];
    KEYS.iter().any(|k| signature.contains(k))
}
