//! Conversation runner: one client connection with a scripted byte stream against the real
//! server, plan-driven application handlers, and a generic judge comparing what the application
//! and the client observed with what the generator's reference says.

use crate::alloc::lib;
use crate::env::{CaseApp, Env, PANIC_MARKER};
use crate::gen::{echo_hash, AbsReq};
use crate::httpc::Resp;
use crate::net::{Client, End, Got};
use crate::p05::PieceReader;
use crate::util::{now_ns, pattern, spawn_named, CalWindow, Rng, J};
use std::io::{Read, Write};
use std::sync::atomic::{AtomicUsize, Ordering};
use std::sync::{Arc, Condvar, Mutex};
use std::time::{Duration, Instant};
use tiny_http::{Header, Request, Response, StatusCode};

// ---------------------------------------------------------------------------------------------
// plans

#[derive(Clone, Debug, PartialEq)]
pub enum ReadPlan {
    /// never call as_reader
    None,
    /// read until `n` bytes were obtained (or EOF)
    Upto(usize),
    /// read until a read returns Ok(0), then `extra` more reads
    ToEof { extra: usize },
}

#[derive(Clone, Debug, PartialEq)]
pub enum Finish {
    Respond { status: u16, body_len: usize, declared: bool, threshold: Option<usize>, max_piece: usize },
    Drop,
    /// into_writer, then a complete hand-written HTTP/1.1 message in parts (len, flush after?)
    /// `vectored`: the parts are written with `write_vectored` (several slices per call)
    Writer { status: u16, body_len: usize, parts: Vec<(usize, bool)>, early_drop_sleep_us: u64, vectored: bool },
    /// upgrade("vproto"), read the stream to EOF if `read`, write `write` bytes, drop
    Upgrade { read: bool, write: usize },
    /// panic while owning the request
    Panic,
    /// into_writer, write nothing, drop the writer (no message at all for this request)
    WriterNothing,
    /// into_writer, write nothing, then panic while holding the writer (dropped by unwinding)
    WriterPanic,
    /// respond with a body whose reader fails after `fail_after` bytes: io::Error(Other), or a
    /// (marker) panic inside the reader. The application's own fault; what matters is that the
    /// library does not add a second response for the request.
    RespondBrokenBody { declared: bool, body_len: usize, fail_after: usize, panic: bool },
}

#[derive(Clone, Debug)]
pub struct ReqPlan {
    pub read: ReadPlan,
    pub read_sizes: Vec<usize>,
    /// how many times as_reader() is called in total when reading (>=1)
    pub as_reader_calls: usize,
    pub finish: Finish,
    pub pre_delay_us: u64,
    /// after this many ordinary reads, do one zero-length read (`read(&mut [])`)
    pub zero_read_after: Option<usize>,
    /// which std::io::Read entry point the handler uses on the body reader
    pub read_api: ReadApi,
}

#[derive(Clone, Copy, Debug, PartialEq)]
pub enum ReadApi {
    /// `read(&mut buf)` in a loop
    Read,
    /// `read_vectored` with two slices in a loop
    ReadVectored,
    /// one `read_to_end`
    ReadToEnd,
    /// one `read_to_string` (bodies are ASCII)
    ReadToString,
}

impl ReqPlan {
    pub fn simple() -> ReqPlan {
        ReqPlan {
            read: ReadPlan::ToEof { extra: 0 },
            read_sizes: vec![4096],
            as_reader_calls: 1,
            finish: Finish::Respond { status: 200, body_len: 10, declared: true, threshold: None, max_piece: 100000 },
            pre_delay_us: 0,
            zero_read_after: None,
            read_api: ReadApi::Read,
        }
    }
    pub fn finish_label(&self) -> &'static str {
        match self.finish {
            Finish::Respond { .. } => "respond",
            Finish::Drop => "drop",
            Finish::Writer { .. } => "writer",
            Finish::Upgrade { .. } => "upgrade",
            Finish::Panic => "panic",
            Finish::WriterNothing => "writer-nothing",
            Finish::WriterPanic => "writer-panic",
            Finish::RespondBrokenBody { .. } => "respond-broken-body",
        }
    }
    pub fn read_label(&self, body_len: usize) -> &'static str {
        match self.read {
            ReadPlan::None => "none",
            ReadPlan::Upto(n) if n == 0 => "none",
            ReadPlan::Upto(n) if n >= body_len => "all-no-eof",
            ReadPlan::Upto(_) => "part",
            ReadPlan::ToEof { .. } => "eof",
        }
    }
}

// ---------------------------------------------------------------------------------------------
// what the application saw

#[derive(Clone, Debug, Default)]
pub struct Delivered {
    pub k: usize,
    pub t_ns: u64,
    pub method: String,
    pub url: String,
    pub version: (u8, u8),
    pub headers: Vec<(String, String)>,
    pub body_length: Option<usize>,
    pub remote: Option<std::net::SocketAddr>,
    pub echo: u64,
    // filled by the handler
    pub t_as_reader_ns: u64,
    pub body: Vec<u8>,
    pub reads: Vec<(usize, i64)>,
    pub eof_seen: bool,
    pub post_eof_nonzero: bool,
    pub read_err: Option<String>,
    pub finish: String,
    pub finish_err: Option<String>,
    pub t_finish_start_ns: u64,
    pub thread: String,
    pub upgrade_read: Vec<u8>,
    pub done: bool,
    pub t_done_ns: u64,
}

impl Delivered {
    pub fn to_json(&self) -> J {
        J::obj()
            .set("k", J::u(self.k))
            .set("t_us", J::I((self.t_ns / 1000) as i64))
            .set("method", J::s(&self.method))
            .set("url", J::bytes(self.url.as_bytes()))
            .set("version", J::s(format!("{}.{}", self.version.0, self.version.1)))
            .set("n_headers", J::u(self.headers.len()))
            .set("body_length", self.body_length.map(J::u).unwrap_or(J::Null))
            .set("body_read", J::u(self.body.len()))
            .set("body_head", J::bytes(&self.body[..self.body.len().min(80)]))
            .set("eof_seen", J::B(self.eof_seen))
            .set("read_err", self.read_err.as_ref().map(J::s).unwrap_or(J::Null))
            .set("finish", J::s(&self.finish))
            .set("thread", J::s(&self.thread))
            .set("t_finish_start_us", J::I((self.t_finish_start_ns / 1000) as i64))
            .set("t_done_us", J::I((self.t_done_ns / 1000) as i64))
            .set("finish_err", self.finish_err.as_ref().map(J::s).unwrap_or(J::Null))
            .set("done", J::B(self.done))
    }
}

pub fn snapshot_head(rq: &Request, k: usize) -> Delivered {
    let headers: Vec<(String, String)> = rq
        .headers()
        .iter()
        .map(|h| (h.field.as_str().as_str().to_string(), h.value.as_str().to_string()))
        .collect();
    let v = rq.http_version();
    let method = rq.method().as_str().to_string();
    let url = rq.url().to_string();
    let echo = echo_hash(&method, &url, (v.0, v.1), &headers);
    Delivered {
        k,
        t_ns: now_ns(),
        method,
        url,
        version: (v.0, v.1),
        headers,
        body_length: rq.body_length(),
        remote: rq.remote_addr().cloned(),
        echo,
        ..Default::default()
    }
}

/// Response the handlers give: identifies the delivered head it answers (X-Echo) and carries a
/// body that is a function of that identity.
pub fn make_response(
    echo: u64,
    k: usize,
    status: u16,
    body_len: usize,
    declared: bool,
    threshold: Option<usize>,
    max_piece: usize,
) -> Response<PieceReader> {
    let reader = PieceReader { data: pattern(echo, body_len), pos: 0, rng: Rng::new(echo ^ 5), max_piece };
    let mut r = Response::new(
        StatusCode(status),
        vec![
            Header::from_bytes(&b"X-Echo"[..], format!("{:016x}", echo).as_bytes()).unwrap(),
            Header::from_bytes(&b"X-K"[..], k.to_string().as_bytes()).unwrap(),
        ],
        reader,
        if declared { Some(body_len) } else { None },
        None,
    );
    if let Some(t) = threshold {
        r = r.with_chunked_threshold(t);
    }
    r
}

pub fn raw_message(echo: u64, k: usize, status: u16, body_len: usize) -> Vec<u8> {
    let mut m = format!(
        "HTTP/1.1 {} Raw\r\nX-Echo: {:016x}\r\nX-K: {}\r\nContent-Length: {}\r\n\r\n",
        status, echo, k, body_len
    )
    .into_bytes();
    m.extend_from_slice(&pattern(echo, body_len));
    m
}

type ReadOutcome = (Vec<u8>, Vec<(usize, i64)>, bool, bool, Option<String>);

fn read_body(plan: &ReqPlan, rd: &mut dyn FnMut(&mut [u8]) -> std::io::Result<usize>) -> ReadOutcome {
    let mut body = Vec::new();
    let mut reads = Vec::new();
    let mut eof = false;
    let mut post_nonzero = false;
    let mut err = None;
    let mut i = 0usize;
    let mut extra_left = match plan.read {
        ReadPlan::ToEof { extra } => extra,
        _ => 0,
    };
    let limit = match plan.read {
        ReadPlan::Upto(n) => n,
        _ => usize::MAX,
    };
    loop {
        if plan.zero_read_after == Some(i) {
            let mut empty: [u8; 0] = [];
            let r = rd(&mut empty);
            reads.push((0, r.map(|n| n as i64).unwrap_or(-1)));
        }
        let mut sz = plan.read_sizes[i % plan.read_sizes.len()].max(1);
        i += 1;
        if limit != usize::MAX {
            sz = sz.min(limit - body.len());
            if sz == 0 {
                break;
            }
        }
        let mut buf = vec![0u8; sz];
        // `ErrorKind::Interrupted` is the one error a caller has to retry (that is what
        // read_to_end, read_exact and io::copy do); a reader that keeps returning it never lets
        // such a caller out, which is recorded after 10 000 consecutive retries
        let mut interrupted = 0u32;
        let res = loop {
            match rd(&mut buf) {
                Err(e) if e.kind() == std::io::ErrorKind::Interrupted && interrupted < 10_000 => interrupted += 1,
                other => break other,
            }
        };
        if interrupted >= 10_000 {
            reads.push((sz, -1));
            err = Some("INTERRUPTED-FOREVER: the body reader returned ErrorKind::Interrupted 10000 times in a row; a caller that follows the Read contract (read_to_end, read_exact, io::copy) would never get out".to_string());
            break;
        }
        match res {
            Ok(0) => {
                reads.push((sz, 0));
                if eof {
                    if extra_left == 0 {
                        break;
                    }
                    extra_left -= 1;
                } else {
                    eof = true;
                    if extra_left == 0 {
                        break;
                    }
                }
            }
            Ok(n) => {
                reads.push((sz, n as i64));
                if eof {
                    post_nonzero = true;
                }
                body.extend_from_slice(&buf[..n]);
                if reads.len() > 400_000 {
                    err = Some("harness: too many reads".to_string());
                    break;
                }
            }
            Err(e) => {
                reads.push((sz, -1));
                err = Some(format!("{:?}: {}", e.kind(), e));
                break;
            }
        }
    }
    (body, reads, eof, post_nonzero, err)
}

/// Executes a plan on a delivered request; everything that enters the library is charged to it.
pub fn execute_plan(mut rq: Request, plan: &ReqPlan, rec: &Arc<Mutex<Delivered>>) {
    if plan.pre_delay_us > 0 {
        crate::util::sleep_us(plan.pre_delay_us);
    }
    let (echo, k) = {
        let r = rec.lock().unwrap();
        (r.echo, r.k)
    };
    // body
    let want_read = !matches!(plan.read, ReadPlan::None | ReadPlan::Upto(0));
    if want_read {
        rec.lock().unwrap().t_as_reader_ns = now_ns();
        let whole = matches!(plan.read_api, ReadApi::ReadToEnd | ReadApi::ReadToString) && matches!(plan.read, ReadPlan::ToEof { .. });
        let (body, mut reads, eof, post_nonzero, err) = if whole {
            // one call that reads to the end of the body, then the extra reads of the plan
            let rd = lib(|| rq.as_reader());
            let mut body = Vec::new();
            let r = if plan.read_api == ReadApi::ReadToEnd {
                lib(|| rd.read_to_end(&mut body))
            } else {
                let mut s = String::new();
                let r = lib(|| rd.read_to_string(&mut s));
                body = s.into_bytes();
                r
            };
            let mut reads = vec![(usize::MAX, r.as_ref().map(|n| *n as i64).unwrap_or(-1))];
            let mut post = false;
            let extra = match plan.read {
                ReadPlan::ToEof { extra } => extra,
                _ => 0,
            };
            let mut b1 = [0u8; 64];
            for _ in 0..extra {
                match lib(|| rd.read(&mut b1)) {
                    Ok(0) => reads.push((64, 0)),
                    Ok(n) => {
                        post = true;
                        reads.push((64, n as i64));
                    }
                    Err(_) => reads.push((64, -1)),
                }
            }
            (body, reads, r.is_ok(), post, r.err().map(|e| format!("{:?}: {}", e.kind(), e)))
        } else if plan.read_api == ReadApi::ReadVectored && plan.as_reader_calls <= 1 {
            let rd = lib(|| rq.as_reader());
            read_body(plan, &mut |b| {
                // split the buffer in two slices; read_vectored fills them in order
                let cut = b.len() / 2;
                let (x, y) = b.split_at_mut(cut);
                let mut io = [std::io::IoSliceMut::new(x), std::io::IoSliceMut::new(y)];
                lib(|| rd.read_vectored(&mut io))
            })
        } else if plan.as_reader_calls <= 1 {
            // ask for the body once, keep the reader
            let rd = lib(|| rq.as_reader());
            read_body(plan, &mut |b| lib(|| rd.read(b)))
        } else {
            // ask for the body again before every read
            read_body(plan, &mut |b| lib(|| rq.as_reader().read(b)))
        };
        let mut r = rec.lock().unwrap();
        r.body = body;
        if reads.len() > 64 {
            let tail = reads.split_off(reads.len() - 32);
            reads.truncate(32);
            reads.extend(tail);
        }
        r.reads = reads;
        r.eof_seen = eof;
        r.post_eof_nonzero = post_nonzero;
        r.read_err = err;
    }
    // finish
    let label = plan.finish_label().to_string();
    let mut ferr = None;
    {
        let mut r = rec.lock().unwrap();
        r.t_finish_start_ns = now_ns();
        r.thread = std::thread::current().name().unwrap_or("").to_string();
    }
    match &plan.finish {
        Finish::Respond { status, body_len, declared, threshold, max_piece } => {
            let resp = make_response(echo, k, *status, *body_len, *declared, *threshold, *max_piece);
            if let Err(e) = lib(|| rq.respond(resp)) {
                ferr = Some(format!("{:?}: {}", e.kind(), e));
            }
        }
        Finish::Drop => {
            lib(|| drop(rq));
        }
        Finish::Writer { status, body_len, parts, early_drop_sleep_us, vectored } => {
            let msg = raw_message(echo, k, *status, *body_len);
            let mut w = lib(|| rq.into_writer());
            let mut pos = 0;
            for (i, (len, flush)) in parts.iter().enumerate() {
                let end = if i + 1 == parts.len() { msg.len() } else { (pos + len).min(msg.len()) };
                let res = if *vectored {
                    // the same bytes as two or three slices per call, until all are taken
                    let mut at = pos;
                    let mut r = Ok(());
                    while at < end {
                        let a = at + (end - at) / 3;
                        let b = at + 2 * (end - at) / 3;
                        let slices = [std::io::IoSlice::new(&msg[at..a]), std::io::IoSlice::new(&msg[a..b]), std::io::IoSlice::new(&msg[b..end])];
                        match lib(|| w.write_vectored(&slices)) {
                            Ok(0) => {
                                r = Err(std::io::Error::new(std::io::ErrorKind::WriteZero, "write_vectored returned 0"));
                                break;
                            }
                            Ok(n) => at += n,
                            Err(e) if e.kind() == std::io::ErrorKind::Interrupted => {}
                            Err(e) => {
                                r = Err(e);
                                break;
                            }
                        }
                    }
                    r
                } else {
                    lib(|| w.write_all(&msg[pos..end]))
                };
                if let Err(e) = res {
                    ferr = Some(format!("write {:?}: {}", e.kind(), e));
                    break;
                }
                pos = end;
                if *flush {
                    if let Err(e) = lib(|| w.flush()) {
                        ferr = Some(format!("flush {:?}: {}", e.kind(), e));
                        break;
                    }
                }
            }
            if ferr.is_none() && pos < msg.len() {
                if let Err(e) = lib(|| w.write_all(&msg[pos..])) {
                    ferr = Some(format!("write {:?}: {}", e.kind(), e));
                }
            }
            if *early_drop_sleep_us > 0 {
                crate::util::sleep_us(*early_drop_sleep_us);
            }
            lib(|| drop(w));
        }
        Finish::Upgrade { read, write } => {
            let mut s = lib(|| rq.upgrade("vproto", Response::empty(101)));
            if *write > 0 {
                let data = pattern(echo ^ 0xabc, *write);
                if let Err(e) = lib(|| s.write_all(&data).and_then(|_| s.flush())) {
                    ferr = Some(format!("upgrade write {:?}: {}", e.kind(), e));
                }
            }
            if *read {
                let mut got = Vec::new();
                let mut buf = vec![0u8; 4096];
                loop {
                    match lib(|| s.read(&mut buf)) {
                        Ok(0) => break,
                        Ok(n) => got.extend_from_slice(&buf[..n]),
                        Err(e) => {
                            ferr = Some(format!("upgrade read {:?}: {}", e.kind(), e));
                            break;
                        }
                    }
                }
                rec.lock().unwrap().upgrade_read = got;
            }
            lib(|| drop(s));
        }
        Finish::WriterNothing => {
            let w = lib(|| rq.into_writer());
            lib(|| drop(w));
        }
        Finish::RespondBrokenBody { declared, body_len, fail_after, panic } => {
            struct Broken {
                left: usize,
                panic: bool,
            }
            impl Read for Broken {
                fn read(&mut self, buf: &mut [u8]) -> std::io::Result<usize> {
                    if self.left == 0 {
                        if self.panic {
                            panic!("{}", PANIC_MARKER);
                        }
                        return Err(std::io::Error::new(std::io::ErrorKind::Other, "application body reader failed"));
                    }
                    let n = buf.len().min(self.left).min(700);
                    for b in buf[..n].iter_mut() {
                        *b = b'x';
                    }
                    self.left -= n;
                    Ok(n)
                }
            }
            let resp = Response::new(
                StatusCode(200),
                vec![Header::from_bytes(&b"X-K"[..], k.to_string().as_bytes()).unwrap()],
                Broken { left: *fail_after, panic: *panic },
                if *declared { Some(*body_len) } else { None },
                None,
            );
            let r = std::panic::catch_unwind(std::panic::AssertUnwindSafe(|| lib(|| rq.respond(resp))));
            match r {
                Ok(Ok(())) => ferr = Some("respond returned Ok although the body reader failed".into()),
                Ok(Err(_)) | Err(_) => {}
            }
        }
        Finish::Panic => {
            {
                let mut r = rec.lock().unwrap();
                r.finish = label.clone();
                r.done = true;
                r.t_done_ns = now_ns();
            }
            let _guard = crate::alloc::LibCall::enter();
            let _hold = rq;
            panic!("{}", PANIC_MARKER);
        }
        Finish::WriterPanic => {
            let w = lib(|| rq.into_writer());
            {
                let mut r = rec.lock().unwrap();
                r.finish = label.clone();
                r.done = true;
                r.t_done_ns = now_ns();
            }
            let _guard = crate::alloc::LibCall::enter();
            let _hold = w;
            panic!("{}", PANIC_MARKER);
        }
    }
    let mut r = rec.lock().unwrap();
    r.finish = label;
    r.finish_err = ferr;
    r.done = true;
    r.t_done_ns = now_ns();
}

// ---------------------------------------------------------------------------------------------
// the case

#[derive(Clone, Debug)]
pub struct WireReq {
    pub bytes: Vec<u8>,
    pub head_len: usize,
    /// class label used in signatures ("valid", "bad-version:HTTP/2.0", ...)
    pub label: String,
    pub abs: Option<AbsReq>,
}

#[derive(Clone, Debug)]
pub enum Step {
    /// send wire[a..b) in one write
    Send(usize, usize),
    /// send wire[a..b) cut at the given absolute offsets, each segment only after the server
    /// consumed the previous bytes (observed through FP_SOCK_READ) or after `pause_us`
    SendPaced { from: usize, ends: Vec<usize>, pause_us: u64 },
    AwaitFinals(usize),
    AwaitInterims(usize),
    HalfClose,
    AwaitEnd,
    SleepUs(u64),
    Close,
    Reset,
}

#[derive(Clone, Debug, PartialEq)]
pub enum LenExp {
    Exactly(Option<usize>),
    Any,
}

#[derive(Clone, Debug)]
pub struct ExpDelivered {
    pub wire_idx: usize,
    pub body: Vec<u8>,
    pub body_length: LenExp,
}

#[derive(Clone, Debug)]
pub struct ExpResp {
    /// acceptable statuses
    pub status: Vec<u16>,
    /// Some(k): answers the k-th delivered request with a handler response (X-Echo, body checked)
    pub delivered_k: Option<usize>,
    /// response to a HEAD request
    pub head: bool,
    /// number of 100-continue interim responses expected before it
    pub interims: usize,
}

/// Which threads answer the delivered requests, and when.
#[derive(Clone, Debug, PartialEq)]
pub enum Sched {
    /// every request on its own thread, started at delivery (plus the plan's pre-delay)
    Immediate,
    /// every request on its own thread; threads are released only when all expected requests
    /// were delivered, in the order `perm` with `gaps_us` pauses in between
    Gate { perm: Vec<usize>, gaps_us: Vec<u64> },
    /// one thread holds all requests and answers them in arrival order
    SingleThread,
}

#[derive(Clone, Debug)]
pub struct ConvCase {
    pub label: String,
    pub unix: bool,
    pub reqs: Vec<WireReq>,
    pub wire: Vec<u8>,
    pub plans: Vec<ReqPlan>,
    pub script: Vec<Step>,
    pub exp_delivered: Vec<ExpDelivered>,
    pub exp_responses: Vec<ExpResp>,
    /// the server must close its sending side after the last expected response
    pub exp_eof: bool,
    /// after a reset/close by the client, delivery of complete requests is optional
    pub delivery_optional: bool,
    pub bound_ms: u64,
    pub sched: Sched,
    /// keep the server-side read record of this connection after the run (C14)
    pub keep_read_track: bool,
}

impl ConvCase {
    pub fn build_wire(reqs: &[WireReq], tail: &[u8]) -> Vec<u8> {
        let mut w = Vec::new();
        for r in reqs {
            w.extend_from_slice(&r.bytes);
        }
        w.extend_from_slice(tail);
        w
    }
    pub fn to_json(&self) -> J {
        J::obj()
            .set("label", J::s(&self.label))
            .set("transport", J::s(if self.unix { "unix" } else { "tcp" }))
            .set(
                "requests",
                J::A(self
                    .reqs
                    .iter()
                    .map(|r| {
                        J::obj()
                            .set("class", J::s(&r.label))
                            .set("len", J::u(r.bytes.len()))
                            .set("bytes", J::S(crate::util::esc(&r.bytes, 300)))
                    })
                    .collect()),
            )
            .set("wire_len", J::u(self.wire.len()))
            .set("plans", J::A(self.plans.iter().map(|p| J::s(format!("{:?}", p).chars().take(300).collect::<String>())).collect()))
            .set("script", J::A(self.script.iter().map(|s| J::s(format!("{:?}", s).chars().take(200).collect::<String>())).collect()))
            .set("expected_delivered", J::A(self.exp_delivered.iter().map(|d| J::u(d.wire_idx)).collect()))
            .set(
                "expected_statuses",
                J::A(self.exp_responses.iter().map(|r| J::A(r.status.iter().map(|s| J::u(*s as usize)).collect())).collect()),
            )
            .set("expected_eof", J::B(self.exp_eof))
            .set("schedule", J::s(format!("{:?}", self.sched)))
    }
}

type HeldReq = (Request, Arc<Mutex<Delivered>>, ReqPlan);

pub struct ConvApp {
    pub port: u16,
    pub unix: bool,
    pub sched: Sched,
    pub n_expected: usize,
    pub held: Mutex<Vec<Option<HeldReq>>>,
    pub single_tx: Mutex<Option<std::sync::mpsc::Sender<HeldReq>>>,
    pub plans: Vec<ReqPlan>,
    pub delivered: Mutex<Vec<Arc<Mutex<Delivered>>>>,
    pub cv: Condvar,
    pub handlers_started: AtomicUsize,
    pub handlers_finished: Arc<AtomicUsize>,
    /// the "/v/<id>/" and "/smuggled/<id>/" tags that occur in this conversation's bytes
    pub wire_tags: Vec<Vec<u8>>,
}

/// "/v/<hex>/" or "/smuggled/<hex>/" at the start of a target: the tag of the conversation that
/// generated it.
fn url_tag(u: &[u8]) -> Option<&[u8]> {
    for pre in [&b"/v/"[..], &b"/smuggled/"[..]] {
        if u.starts_with(pre) {
            let rest = &u[pre.len()..];
            let n = rest.iter().take_while(|b| b.is_ascii_hexdigit()).count();
            if n > 0 && rest.get(n) == Some(&b'/') {
                return Some(&u[..pre.len() + n + 1]);
            }
        }
    }
    None
}

fn wire_tags(wire: &[u8]) -> Vec<Vec<u8>> {
    let mut v: Vec<Vec<u8>> = Vec::new();
    for i in 0..wire.len() {
        if wire[i] == b'/' {
            if let Some(t) = url_tag(&wire[i..(i + 40).min(wire.len())]) {
                if !v.iter().any(|x| x == t) {
                    v.push(t.to_vec());
                }
            }
        }
    }
    v
}

impl CaseApp for ConvApp {
    fn accepts(&self, port: u16, rq: &Request) -> bool {
        if self.unix {
            // no peer address on this transport: a request left over from an earlier, abandoned
            // conversation (it timed out, or was closed with requests still unparsed) is told
            // apart by the conversation tag in its target
            if let Some(t) = url_tag(rq.url().as_bytes()) {
                if !self.wire_tags.iter().any(|x| x == t) {
                    return false;
                }
            }
            !crate::env::is_control(rq)
        } else {
            port == self.port
        }
    }
    fn on_request(&self, rq: Request) {
        let (k, rec, plan) = {
            let mut d = self.delivered.lock().unwrap();
            let k = d.len();
            let rec = Arc::new(Mutex::new(snapshot_head(&rq, k)));
            d.push(rec.clone());
            self.cv.notify_all();
            let plan = self.plans.get(k).cloned().unwrap_or_else(ReqPlan::simple);
            (k, rec, plan)
        };
        self.handlers_started.fetch_add(1, Ordering::SeqCst);
        let fin = self.handlers_finished.clone();
        struct Fin(Arc<AtomicUsize>);
        impl Drop for Fin {
            fn drop(&mut self) {
                self.0.fetch_add(1, Ordering::SeqCst);
            }
        }
        match &self.sched {
            Sched::Immediate => {
                let key = self.port as u32;
                spawn_named(&format!("h{}", k), move || {
                    let _f = Fin(fin);
                    crate::alloc::set_key(key);
                    execute_plan(rq, &plan, &rec);
                });
            }
            Sched::Gate { perm, gaps_us } => {
                let mut held = self.held.lock().unwrap();
                held.push(Some((rq, rec, plan)));
                // handlers_started counts this request; it is finished when its thread ends or
                // when the request is thrown away at the end of the case
                drop(fin);
                if held.len() == self.n_expected {
                    let mut all: Vec<Option<HeldReq>> = std::mem::take(&mut *held);
                    let perm = perm.clone();
                    let gaps = gaps_us.clone();
                    let finc = self.handlers_finished.clone();
                    spawn_named("rel", move || {
                        for (i, idx) in perm.iter().enumerate() {
                            let g = gaps.get(i).copied().unwrap_or(0);
                            if g > 0 {
                                crate::util::sleep_us(g);
                            }
                            if let Some(Some((rq, rec, plan))) = all.get_mut(*idx).map(|x| x.take()) {
                                let f = Fin(finc.clone());
                                spawn_named(&format!("h{}", idx), move || {
                                    let _f = f;
                                    execute_plan(rq, &plan, &rec);
                                });
                            }
                        }
                        // anything not named by the permutation is answered last
                        for slot in all.iter_mut() {
                            if let Some((rq, rec, plan)) = slot.take() {
                                let _f = Fin(finc.clone());
                                let _ = std::panic::catch_unwind(std::panic::AssertUnwindSafe(|| execute_plan(rq, &plan, &rec)));
                            }
                        }
                    });
                }
            }
            Sched::SingleThread => {
                let mut tx = self.single_tx.lock().unwrap();
                if tx.is_none() {
                    let (s, r) = std::sync::mpsc::channel::<HeldReq>();
                    let finc = self.handlers_finished.clone();
                    spawn_named("single", move || {
                        while let Ok((rq, rec, plan)) = r.recv() {
                            let _f = Fin(finc.clone());
                            // a panicking handler must not take the following requests with it
                            let _ = std::panic::catch_unwind(std::panic::AssertUnwindSafe(|| execute_plan(rq, &plan, &rec)));
                        }
                    });
                    *tx = Some(s);
                }
                drop(fin);
                let _ = tx.as_ref().unwrap().send((rq, rec, plan));
            }
        }
    }
}

impl ConvApp {
    /// End of the case: requests still held (gate never opened) are dropped here.
    pub fn discard_held(&self) {
        let held: Vec<Option<HeldReq>> = std::mem::take(&mut *self.held.lock().unwrap());
        for h in held.into_iter().flatten() {
            let (rq, rec, _) = h;
            lib(|| drop(rq));
            rec.lock().unwrap().finish = "discarded-by-harness".into();
            self.handlers_finished.fetch_add(1, Ordering::SeqCst);
        }
        *self.single_tx.lock().unwrap() = None;
    }
}

#[derive(Clone, Debug)]
pub struct ConvObs {
    pub delivered: Vec<Delivered>,
    pub msgs: Vec<(Resp, u64)>,
    pub parse_error: Option<String>,
    pub end: End,
    pub send_err: Option<String>,
    pub handlers_done: bool,
    /// a wait expired
    pub timed_out: Option<String>,
    /// stall oracle condition 2 held during the expired wait
    pub healthy: bool,
    pub control_ok: u32,
    pub cal_overshoot_us: u64,
    pub raw: Vec<u8>,
    pub connect_err: Option<String>,
    pub segments_sent: usize,
    pub server_reads: Vec<usize>,
    pub wall_us: u64,
    pub client_local: Option<std::net::SocketAddr>,
    pub client_port: u16,
}

impl ConvObs {
    pub fn to_json(&self) -> J {
        J::obj()
            .set("delivered", J::A(self.delivered.iter().map(|d| d.to_json()).collect()))
            .set(
                "responses",
                J::A(self
                    .msgs
                    .iter()
                    .map(|(r, t)| {
                        J::obj()
                            .set("t_us", J::I((*t / 1000) as i64))
                            .set("status", J::u(r.status as usize))
                            .set("framing", J::s(format!("{:?}", r.framing).chars().take(60).collect::<String>()))
                            .set("x_echo", r.header("X-Echo").map(J::s).unwrap_or(J::Null))
                            .set("body_len", J::u(r.body.len()))
                    })
                    .collect()),
            )
            .set("parse_error", self.parse_error.as_ref().map(J::s).unwrap_or(J::Null))
            .set("end", J::s(format!("{:?}", self.end)))
            .set("timed_out", self.timed_out.as_ref().map(J::s).unwrap_or(J::Null))
            .set("healthy_during_wait", J::B(self.healthy))
            .set("control_ops_ok", J::u(self.control_ok as usize))
            .set("calibrator_overshoot_us", J::I(self.cal_overshoot_us as i64))
            .set("handlers_done", J::B(self.handlers_done))
            .set("raw_response_bytes", J::S(crate::util::esc(&self.raw, 500)))
    }
}

/// Stall oracle, condition 2: the process is scheduled and the same server serves a control
/// connection at least three times.
pub fn confirm_healthy(env: &Env, cal: &CalWindow, bound: Duration) -> (bool, u32, u64) {
    let mut ok = 0;
    for _ in 0..3 {
        if env.control(Duration::from_millis(500)).is_some() {
            ok += 1;
        }
    }
    let (over, _) = cal.read();
    let healthy = ok >= 3 && cal.healthy(bound / 10);
    (healthy, ok, over.as_micros() as u64)
}

pub fn run_conv(env: &Env, case: &ConvCase) -> ConvObs {
    let t0 = Instant::now();
    // sanitizer builds run several times slower: their workers get proportionally longer bounds
    let bound = Duration::from_millis(case.bound_ms * crate::util::time_scale());
    let mut obs = ConvObs {
        delivered: Vec::new(),
        msgs: Vec::new(),
        parse_error: None,
        end: End::Open,
        send_err: None,
        handlers_done: true,
        timed_out: None,
        healthy: true,
        control_ok: 0,
        cal_overshoot_us: 0,
        raw: Vec::new(),
        connect_err: None,
        segments_sent: 0,
        server_reads: Vec::new(),
        wall_us: 0,
        client_local: None,
        client_port: 0,
    };
    let mut client = match Client::connect(&env.addr) {
        Ok(c) => c,
        Err(e) => {
            obs.connect_err = Some(e.to_string());
            return obs;
        }
    };
    obs.client_local = client.local;
    obs.client_port = client.port;
    if case.keep_read_track {
        // per-connection allocation counters start from zero (ports are re-used over a run)
        crate::alloc::key_reset(client.port);
    }
    let fin = Arc::new(AtomicUsize::new(0));
    let app = Arc::new(ConvApp {
        port: client.port,
        unix: case.unix,
        sched: case.sched.clone(),
        n_expected: case.exp_delivered.len(),
        held: Mutex::new(Vec::new()),
        single_tx: Mutex::new(None),
        plans: case.plans.clone(),
        delivered: Mutex::new(Vec::new()),
        cv: Condvar::new(),
        handlers_started: AtomicUsize::new(0),
        handlers_finished: fin.clone(),
        wire_tags: if case.unix { wire_tags(&case.wire) } else { Vec::new() },
    });
    env.set_app(Some(app.clone()));
    let cal = CalWindow::open();
    let heads: Vec<bool> = case.exp_responses.iter().map(|r| r.head).collect();
    let headf = |i: usize| heads.get(i).copied().unwrap_or(false);
    let mut client_gone = false;

    for step in &case.script {
        match step {
            Step::Send(a, b) => {
                client.send(&case.wire[*a..*b]);
                obs.segments_sent += 1;
            }
            Step::SendPaced { from, ends, pause_us } => {
                let mut pos = *from;
                for e in ends {
                    if *e <= pos {
                        continue;
                    }
                    client.send(&case.wire[pos..*e]);
                    obs.segments_sent += 1;
                    pos = *e;
                    if !case.unix {
                        // wait until the server consumed everything sent so far; a server that
                        // is (legitimately) not reading right now just costs the pause
                        if !crate::env::wait_consumed(client.port, client.sent, Duration::from_micros((*pause_us).max(200))) {
                            // not consumed: fine, go on
                        }
                    } else {
                        crate::util::sleep_us(*pause_us);
                    }
                }
            }
            Step::AwaitFinals(n) => match client.await_finals(*n, &headf, bound) {
                Got::Msg => {}
                Got::Timeout => {
                    obs.timed_out = Some(format!("waiting for final response #{}", n));
                    break;
                }
                _ => break,
            },
            Step::AwaitInterims(n) => {
                let deadline = Instant::now() + bound;
                let mut stop = false;
                while client.interims < *n {
                    let left = deadline.saturating_duration_since(Instant::now());
                    match client.next_msg(headf(client.finals), left) {
                        Got::Msg => {
                            // a final response instead of the interim one: stop waiting
                            if client.msgs.last().map(|m| !m.0.is_interim()).unwrap_or(false) {
                                break;
                            }
                        }
                        Got::Timeout => {
                            obs.timed_out = Some(format!("waiting for interim response #{}", n));
                            stop = true;
                            break;
                        }
                        _ => {
                            stop = true;
                            break;
                        }
                    }
                }
                if stop {
                    break;
                }
            }
            Step::HalfClose => client.half_close(),
            Step::AwaitEnd => match client.await_end(&headf, bound) {
                Got::Timeout => {
                    obs.timed_out = Some("waiting for the server to close".to_string());
                    break;
                }
                _ => {}
            },
            Step::SleepUs(us) => crate::util::sleep_us(*us),
            Step::Close => {
                // keep what was received so far
                let _ = client.await_finals(0, &headf, Duration::from_millis(0));
                client.close();
                client_gone = true;
            }
            Step::Reset => {
                client.reset();
                client_gone = true;
            }
        }
    }
    if obs.timed_out.is_some() {
        let (h, ok, over) = confirm_healthy(env, &cal, bound);
        obs.healthy = h;
        obs.control_ok = ok;
        obs.cal_overshoot_us = over;
    }
    if !client_gone {
        // pick up anything that arrived without waiting
        loop {
            match client.next_msg(headf(client.finals), Duration::from_millis(0)) {
                Got::Msg => continue,
                _ => break,
            }
        }
    }
    obs.end = client.end_state();
    // wait for the handlers of delivered requests
    let deadline = Instant::now() + if obs.timed_out.is_some() { Duration::from_millis(100) } else { bound };
    loop {
        let started = app.handlers_started.load(Ordering::SeqCst);
        let finished = fin.load(Ordering::SeqCst);
        let held = app.held.lock().unwrap().iter().filter(|h| h.is_some()).count();
        if finished + held >= started {
            break;
        }
        if Instant::now() >= deadline {
            obs.handlers_done = false;
            if obs.timed_out.is_none() {
                obs.timed_out = Some("waiting for application handlers to return".into());
                let (h, ok, over) = confirm_healthy(env, &cal, bound);
                obs.healthy = h;
                obs.control_ok = ok;
                obs.cal_overshoot_us = over;
            }
            break;
        }
        std::thread::sleep(Duration::from_micros(200));
    }
    env.set_app(None);
    app.discard_held();
    obs.delivered = app.delivered.lock().unwrap().iter().map(|d| d.lock().unwrap().clone()).collect();
    obs.msgs = std::mem::take(&mut client.msgs);
    obs.parse_error = client.parse_error.clone();
    obs.send_err = client.send_err.clone();
    obs.raw = client.state().buf;
    if !case.unix {
        let pr = crate::env::reads_of(client.port);
        obs.server_reads = pr.reads;
    }
    let port = client.port;
    drop(client);
    if !case.unix {
        if case.keep_read_track {
            // the caller wants to wait for the server side of this connection to go quiet
        } else {
            crate::env::reads_forget(port);
        }
    }
    obs.wall_us = t0.elapsed().as_micros() as u64;
    obs
}

// ---------------------------------------------------------------------------------------------
// judge

#[derive(Clone, Copy, Debug, Default)]
pub struct Judge {
    pub delivered_set: bool,
    pub head_fidelity: bool,
    pub body: bool,
    pub responses: bool,
    pub eof: bool,
    pub finish_ok: bool,
}

impl Judge {
    pub fn all() -> Judge {
        Judge { delivered_set: true, head_fidelity: true, body: true, responses: true, eof: true, finish_ok: true }
    }
}

#[derive(Clone, Debug)]
pub struct Finding {
    pub aspect: String,
    pub what: String,
}

pub enum Verdict {
    Held,
    Inconclusive(String),
    Violated(Vec<Finding>),
}

fn f(aspect: &str, what: String) -> Finding {
    Finding { aspect: aspect.to_string(), what }
}

pub fn judge(case: &ConvCase, obs: &ConvObs, j: &Judge) -> Verdict {
    if let Some(e) = &obs.connect_err {
        return Verdict::Inconclusive(format!("connect failed: {}", e));
    }
    if obs.timed_out.is_some() && !obs.healthy {
        return Verdict::Inconclusive(format!(
            "wait expired ({}) but the process/server was not demonstrably running (control ok {}, calibrator overshoot {} us)",
            obs.timed_out.as_ref().unwrap(),
            obs.control_ok,
            obs.cal_overshoot_us
        ));
    }
    let mut out = Vec::new();

    // 1. what was delivered
    if j.delivered_set {
        for (k, d) in obs.delivered.iter().enumerate() {
            match case.exp_delivered.get(k) {
                None => {
                    let asp = if d.url.starts_with("/smuggled") { "smuggled-delivered" } else { "unexpected-delivery" };
                    out.push(f(asp, format!("request #{} delivered that must not be: {} {}", k, d.method, crate::util::esc(d.url.as_bytes(), 80))));
                }
                Some(e) => {
                    let w = &case.reqs[e.wire_idx];
                    if let Some(a) = &w.abs {
                        if d.url != a.target || d.method != a.method {
                            let asp = if d.url.starts_with("/smuggled") { "smuggled-delivered" } else { "wrong-delivery" };
                            out.push(f(
                                asp,
                                format!(
                                    "delivery #{} is {} {} but wire request #{} is {} {}",
                                    k,
                                    d.method,
                                    crate::util::esc(d.url.as_bytes(), 60),
                                    e.wire_idx,
                                    a.method,
                                    crate::util::esc(a.target.as_bytes(), 60)
                                ),
                            ));
                        }
                    }
                }
            }
        }
        if obs.delivered.len() < case.exp_delivered.len() && !case.delivery_optional {
            let k = obs.delivered.len();
            let stalled = obs.timed_out.is_some();
            out.push(f(
                if stalled { "not-delivered-stall" } else { "not-delivered" },
                format!(
                    "only {} of {} expected requests were delivered (first missing: wire request #{}){}",
                    k,
                    case.exp_delivered.len(),
                    case.exp_delivered[k].wire_idx,
                    obs.timed_out.as_ref().map(|t| format!("; {}", t)).unwrap_or_default()
                ),
            ));
        }
    }

    // 2. head fidelity
    if j.head_fidelity {
        for (k, d) in obs.delivered.iter().enumerate() {
            let e = match case.exp_delivered.get(k) {
                Some(e) => e,
                None => break,
            };
            let a = match &case.reqs[e.wire_idx].abs {
                Some(a) => a,
                None => continue,
            };
            if d.method != a.method {
                out.push(f("method", format!("delivery #{}: method {:?}, sent {:?}", k, d.method, a.method)));
            }
            if d.url != a.target {
                out.push(f("target", format!("delivery #{}: target differs ({} vs {} bytes)", k, d.url.len(), a.target.len())));
            }
            if d.version != a.version {
                out.push(f("version", format!("delivery #{}: version {:?}, sent {:?}", k, d.version, a.version)));
            }
            let eh = a.expected_headers();
            if d.headers.len() != eh.len() {
                out.push(f("header-count", format!("delivery #{}: {} headers, sent {}", k, d.headers.len(), eh.len())));
            } else {
                for (i, ((dn, dv), (en, ev))) in d.headers.iter().zip(eh.iter()).enumerate() {
                    if !dn.eq_ignore_ascii_case(en) {
                        out.push(f("header-name", format!("delivery #{} header #{}: name {:?}, sent {:?}", k, i, dn, en)));
                        break;
                    }
                    if dv != ev {
                        out.push(f(
                            "header-value",
                            format!(
                                "delivery #{} header #{} ({}): value {:?}, sent {:?}",
                                k,
                                i,
                                en,
                                crate::util::esc(dv.as_bytes(), 60),
                                crate::util::esc(ev.as_bytes(), 60)
                            ),
                        ));
                        break;
                    }
                }
            }
            if case.unix {
                if d.remote.is_some() {
                    out.push(f("remote-addr", format!("delivery #{}: remote_addr is {:?} on a UNIX socket", k, d.remote)));
                }
            } else if d.remote != obs.client_local {
                out.push(f("remote-addr", format!("delivery #{}: remote_addr {:?}, client socket address {:?}", k, d.remote, obs.client_local)));
            }
        }
    }

    // 3. bodies
    if j.body {
        for (k, d) in obs.delivered.iter().enumerate() {
            let e = match case.exp_delivered.get(k) {
                Some(e) => e,
                None => break,
            };
            let plan = case.plans.get(k).cloned().unwrap_or_else(ReqPlan::simple);
            if let LenExp::Exactly(l) = &e.body_length {
                if d.body_length != *l {
                    out.push(f("body_length", format!("delivery #{}: body_length() = {:?}, framing says {:?}", k, d.body_length, l)));
                }
            }
            if !d.done {
                continue;
            }
            match plan.read {
                ReadPlan::None | ReadPlan::Upto(0) => {}
                ReadPlan::Upto(n) => {
                    let want = &e.body[..n.min(e.body.len())];
                    if d.read_err.is_none() && d.body != want {
                        out.push(f("body-prefix", format!("delivery #{}: first {} body bytes differ from the designated body (got {} bytes)", k, n, d.body.len())));
                    }
                }
                ReadPlan::ToEof { .. } => {
                    if let Some(err) = &d.read_err {
                        out.push(f("body-read-error", format!("delivery #{}: body read failed: {}", k, err)));
                    } else {
                        if d.body != e.body {
                            let common = d.body.iter().zip(e.body.iter()).take_while(|(a, b)| a == b).count();
                            let asp = if d.body.len() > e.body.len() { "body-overrun" } else if d.body.len() < e.body.len() { "body-short" } else { "body-corrupt" };
                            out.push(f(
                                asp,
                                format!(
                                    "delivery #{}: body read = {} bytes, designated body = {} bytes, first difference at {}",
                                    k,
                                    d.body.len(),
                                    e.body.len(),
                                    common
                                ),
                            ));
                        }
                        if !d.eof_seen {
                            out.push(f("no-eof", format!("delivery #{}: end-of-stream not reported", k)));
                        }
                        if d.post_eof_nonzero {
                            out.push(f("data-after-eof", format!("delivery #{}: a read after end-of-stream returned data", k)));
                        }
                    }
                }
            }
        }
    }

    // 4. responses
    if j.responses {
        if let Some(e) = &obs.parse_error {
            out.push(f("response-stream-malformed", format!("response stream does not parse: {}", e)));
        } else {
            let mut finals: Vec<(&Resp, usize)> = Vec::new(); // (resp, interims before it)
            let mut pending_interims = 0usize;
            for (r, _) in &obs.msgs {
                if r.is_interim() {
                    pending_interims += 1;
                } else {
                    finals.push((r, pending_interims));
                    pending_interims = 0;
                }
            }
            if pending_interims > 0 && finals.len() >= case.exp_responses.len() {
                out.push(f("interim-after-last", "interim response after the last final response".into()));
            }
            for (i, (r, interims)) in finals.iter().enumerate() {
                let e = match case.exp_responses.get(i) {
                    Some(e) => e,
                    None => {
                        out.push(f("extra-response", format!("response #{} (status {}) is not expected", i, r.status)));
                        continue;
                    }
                };
                if !e.status.contains(&r.status) {
                    out.push(f(
                        &format!("status-{}-want-{}", r.status, e.status.iter().map(|s| s.to_string()).collect::<Vec<_>>().join("|")),
                        format!("response #{} has status {}, expected {:?}", i, r.status, e.status),
                    ));
                    continue;
                }
                if *interims != e.interims {
                    out.push(f(
                        if *interims > e.interims { "unexpected-100-continue" } else { "missing-100-continue" },
                        format!("response #{} preceded by {} interim responses, expected {}", i, interims, e.interims),
                    ));
                }
                if let Some(k) = e.delivered_k {
                    let plan = case.plans.get(k).cloned().unwrap_or_else(ReqPlan::simple);
                    let wire_idx = case.exp_delivered.get(k).map(|d| d.wire_idx);
                    let abs = wire_idx.and_then(|w| case.reqs[w].abs.as_ref());
                    if let (Some(a), Finish::Respond { body_len, .. } | Finish::Writer { body_len, .. }) = (abs, &plan.finish) {
                        let echo = a.echo();
                        let xe = r.header("X-Echo").unwrap_or("");
                        if xe != format!("{:016x}", echo) {
                            out.push(f(
                                "response-for-other-request",
                                format!("response #{} carries X-Echo {:?}, expected {:016x} (the request at this position)", i, xe, echo),
                            ));
                            continue;
                        }
                        let bodiless = e.head || r.status == 204 || r.status == 304 || (100..200).contains(&r.status);
                        if !bodiless && r.body != pattern(echo, *body_len) {
                            out.push(f("response-body", format!("response #{}: body differs from what the handler gave ({} vs {} bytes)", i, r.body.len(), body_len)));
                        }
                    }
                }
            }
            if finals.len() < case.exp_responses.len() {
                let stalled = obs.timed_out.is_some();
                out.push(f(
                    if stalled { "response-missing-stall" } else { "response-missing" },
                    format!(
                        "{} of {} expected responses arrived (end: {:?}{})",
                        finals.len(),
                        case.exp_responses.len(),
                        obs.end,
                        obs.timed_out.as_ref().map(|t| format!("; {}", t)).unwrap_or_default()
                    ),
                ));
            }
        }
    }

    // 5. end of stream
    if j.eof && case.exp_eof {
        match obs.end {
            End::Eof | End::Rst => {}
            End::Err => out.push(f("client-io-error", "client read failed with an unexpected error".into())),
            End::Open => {
                if out.iter().all(|x| !x.aspect.ends_with("-stall")) {
                    out.push(f(
                        "no-eof-stall",
                        format!(
                            "server did not close its sending side within the bound{}",
                            obs.timed_out.as_ref().map(|t| format!(" ({})", t)).unwrap_or_default()
                        ),
                    ));
                }
            }
        }
    }

    // 6. handler calls
    if j.finish_ok {
        for d in &obs.delivered {
            if let Some(e) = &d.finish_err {
                out.push(f("respond-error", format!("delivery #{}: {} returned an error: {}", d.k, d.finish, e)));
            }
        }
        if !obs.handlers_done {
            out.push(f("handler-blocked-stall", "an application handler did not return from a library call within the bound".into()));
        }
    }

    if out.is_empty() {
        Verdict::Held
    } else {
        Verdict::Violated(out)
    }
}

pub fn history_json(case: &ConvCase, obs: &ConvObs) -> J {
    J::obj().set("case", case.to_json()).set("observed", obs.to_json())
}
