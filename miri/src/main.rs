//! `vm` – component scenarios of tiny-http run under Miri (`cargo +nightly miri run -- <scenario> <seed> <prop>`).
//! Miri supplies what the native engine cannot: a seeded preemptive scheduler (-Zmiri-many-seeds),
//! a deadlock detector, a virtual clock (isolation on) and UB / data-race detection.
//! Every run prints one JSON line in the shard format of the native harness.

use std::io::{Cursor, Read, Write};
use std::sync::atomic::{AtomicUsize, Ordering};
use std::sync::mpsc::channel;
use std::sync::{Arc, Mutex};
use std::time::{Duration, Instant};
use tiny_http::verif::*;
use tiny_http::{HTTPVersion, Header, Method, Response};

struct Rng(u64);
impl Rng {
    fn next(&mut self) -> u64 {
        self.0 = self.0.wrapping_add(0x9E37_79B9_7F4A_7C15);
        let mut z = self.0;
        z = (z ^ (z >> 30)).wrapping_mul(0xBF58_476D_1CE4_E5B9);
        z = (z ^ (z >> 27)).wrapping_mul(0x94D0_49BB_1331_11EB);
        z ^ (z >> 31)
    }
    fn below(&mut self, n: usize) -> usize {
        (self.next() % n as u64) as usize
    }
    fn range(&mut self, lo: usize, hi: usize) -> usize {
        lo + self.below(hi - lo + 1)
    }
}

fn esc(s: &str) -> String {
    s.chars()
        .flat_map(|c| match c {
            '"' => "\\\"".chars().collect::<Vec<_>>(),
            '\\' => "\\\\".chars().collect(),
            '\n' => "\\n".chars().collect(),
            '\r' => "\\r".chars().collect(),
            c if (c as u32) < 0x20 => format!("\\u{:04x}", c as u32).chars().collect(),
            c => vec![c],
        })
        .collect()
}

struct Out {
    prop: String,
    scenario: String,
    evaluations: u64,
    sigs: Vec<String>,
    counts: Vec<(String, u64)>,
    samples: Vec<String>,
    violations: Vec<(String, String, String)>,
}

impl Out {
    fn count(&mut self, k: &str, n: u64) {
        if let Some(e) = self.counts.iter_mut().find(|e| e.0 == k) {
            e.1 += n;
        } else {
            self.counts.push((k.to_string(), n));
        }
    }
    fn eval(&mut self, sig: String) {
        self.evaluations += 1;
        let h = format!("{:016x}", fnv(sig.as_bytes()));
        if !self.sigs.contains(&h) {
            self.sigs.push(h);
        }
    }
    fn violation(&mut self, sig: &str, what: String, detail: String) {
        // a scenario that serves several properties reports under the one it was run for
        let sig = match sig.find("/miri/") {
            Some(i) if !self.prop.is_empty() => format!("{}{}", self.prop, &sig[i..]),
            _ => sig.to_string(),
        };
        self.violations.push((sig, what, detail));
    }
    fn print(&self, seed: u64) {
        let sigs: Vec<String> = self.sigs.iter().map(|s| format!("\"{}\"", s)).collect();
        let counts: Vec<String> = self.counts.iter().map(|(k, v)| format!("\"{}\":{}", esc(k), v)).collect();
        let samples: Vec<String> = self.samples.iter().take(3).map(|s| format!("\"{}\"", esc(s))).collect();
        let viol: Vec<String> = self
            .violations
            .iter()
            .map(|(s, w, d)| {
                format!(
                    "{{\"signature\":\"{}\",\"what\":\"{}\",\"case_seed\":\"{}\",\"mode\":\"miri:{}\",\"detail\":{{\"text\":\"{}\"}}}}",
                    esc(s), esc(w), seed, esc(&self.scenario), esc(d)
                )
            })
            .collect();
        println!(
            "{{\"type\":\"shard\",\"property\":\"{}\",\"seed\":{},\"shard\":0,\"wall_s\":0,\"evaluations\":{},\"trivial\":0,\"sigs\":[{}],\"inconclusive\":0,\"inconclusive_reasons\":[],\"counts\":{{{}}},\"samples\":[{}],\"violations\":[{}]}}",
            esc(&self.prop), seed, self.evaluations, sigs.join(","), counts.join(","), samples.join(","), viol.join(",")
        );
    }
}

fn fnv(s: &[u8]) -> u64 {
    let mut h: u64 = 0xcbf29ce484222325;
    for b in s {
        h ^= *b as u64;
        h = h.wrapping_mul(0x100000001b3);
    }
    h
}

// ---------------------------------------------------------------------------------------------
// C07: queue, exactly once, no lost wake-up (virtual clock makes the verdict load-independent)

#[derive(Clone, Debug)]
enum Op {
    Pop,
    PopTimeout(u64),
    TryPop,
}

/// Directed variant: a wake-up (push or unblock token) that races with the deadline of a timed
/// consumer. Positions are taken from queue snapshots, not from time: the timed consumer is known
/// to be waiting, the blocked consumer is known to wait behind it, then the producer acts at a
/// seeded phase of the timed consumer's wait (all phases, including its last millisecond).
fn directed_deadline_race(rng: &mut Rng, out: &mut Out, token: bool) {
    let q: Arc<MessagesQueue<u32>> = MessagesQueue::with_capacity(8);
    // thread start-up costs tens of virtual milliseconds under Miri (5 us per basic block), so the
    // timeout is long and both consumers are created first and released through flags
    let t_ms = [100u64, 150, 250][rng.below(3)];
    let go_timed = Arc::new(std::sync::atomic::AtomicBool::new(false));
    let go_blocked = Arc::new(std::sync::atomic::AtomicBool::new(false));
    let ready = Arc::new(AtomicUsize::new(0));
    let (q1, g1, r1) = (q.clone(), go_timed.clone(), ready.clone());
    let timed = std::thread::spawn(move || {
        r1.fetch_add(1, Ordering::SeqCst);
        while !g1.load(Ordering::SeqCst) {
            std::thread::sleep(Duration::from_micros(200));
        }
        q1.pop_timeout(Duration::from_millis(t_ms))
    });
    let (q0, g0, r0) = (q.clone(), go_blocked.clone(), ready.clone());
    let blocked = std::thread::spawn(move || {
        r0.fetch_add(1, Ordering::SeqCst);
        while !g0.load(Ordering::SeqCst) {
            std::thread::sleep(Duration::from_micros(200));
        }
        q0.pop()
    });
    while ready.load(Ordering::SeqCst) < 2 {
        std::thread::sleep(Duration::from_millis(1));
    }
    go_timed.store(true, Ordering::SeqCst);
    let mut t_enter = Instant::now();
    while q.verif_snapshot().blocked_pop_timeout == 0 {
        std::thread::sleep(Duration::from_micros(100));
        t_enter = Instant::now();
        if timed.is_finished() {
            break;
        }
    }
    go_blocked.store(true, Ordering::SeqCst);
    while q.verif_snapshot().blocked_pop == 0 {
        std::thread::sleep(Duration::from_micros(100));
    }
    // phase of the wake-up inside the timed wait, biased towards the deadline. Executing the few
    // statements between waking up and the push itself costs virtual milliseconds, so the target
    // is spread over the last 12 ms before the deadline.
    let phase_us = if rng.below(3) == 0 {
        rng.below((t_ms * 1000 + 500) as usize) as u64
    } else {
        t_ms * 1000 - 12_000 + rng.below(12_500) as u64
    };
    let before = q.verif_snapshot();
    let target = t_enter + Duration::from_micros(phase_us);
    let now = Instant::now();
    if target > now {
        std::thread::sleep(target - now);
    }
    if token {
        q.unblock();
    } else {
        q.push(1);
    }
    let acted_at = t_enter.elapsed();
    std::thread::sleep(Duration::from_secs(3));
    let s = q.verif_snapshot();
    out.eval(format!("directed|token{}|T{}|phase{}", token, t_ms, phase_us / 250));
    out.count("directed_runs", 1);
    if before.blocked_pop_timeout == 1 && before.blocked_pop == 1 {
        out.count("directed_runs_with_both_consumers_waiting_at_the_wakeup", 1);
        if acted_at.as_micros() as u64 + 1000 >= t_ms * 1000 {
            out.count("directed_wakeups_in_last_millisecond", 1);
        }
    }
    let prop = if token { "C17" } else { "C07" };
    let scen = if token { "queue_unblock" } else { "queue" };
    if (s.elems > 0 || s.tokens > 0) && s.blocked_pop > 0 {
        out.violation(
            &format!("{}/miri/{}/{}-queued-while-receiver-blocked", prop, scen, if token { "token" } else { "element" }),
            format!(
                "a {} issued {} us into a pop_timeout({} ms) wait stayed queued while a consumer is blocked in pop(), three virtual seconds later",
                if token { "token" } else { "request" },
                acted_at.as_micros(),
                t_ms
            ),
            format!("before {:?} after {:?}", before, s),
        );
    }
    if out.samples.is_empty() {
        out.samples.push(format!("directed: token={} T={}ms wake-up at {} us; before {:?}; 3 s later {:?}", token, t_ms, acted_at.as_micros(), before, s));
    }
    // wind down
    loop {
        let s = q.verif_snapshot();
        if s.blocked_pop == 0 && s.blocked_pop_timeout == 0 {
            break;
        }
        // always kick: on a defective tree a token's own notification may be lost
        q.unblock();
        std::thread::sleep(Duration::from_millis(1));
    }
    let _ = timed.join();
    let _ = blocked.join();
}

/// Directed schedule for "the emptiness check and the wait are one critical section": a timed
/// consumer is released through a flag and a single element is pushed at a seeded instant
/// around its entry into `pop_timeout`. If the consumer looks at the queue, lets go of the mutex
/// and only then starts to wait, a push in between wakes nobody and the element stays queued
/// for the whole (long) timeout although a consumer is waiting for it.
fn directed_entry_race(rng: &mut Rng, out: &mut Out) {
    for attempt in 0..10 {
        let q: Arc<MessagesQueue<u32>> = MessagesQueue::with_capacity(8);
        let go = Arc::new(std::sync::atomic::AtomicBool::new(false));
        let ready = Arc::new(AtomicUsize::new(0));
        let (q1, g1, r1) = (q.clone(), go.clone(), ready.clone());
        let timed = std::thread::spawn(move || {
            r1.fetch_add(1, Ordering::SeqCst);
            while !g1.load(Ordering::SeqCst) {
                std::thread::sleep(Duration::from_micros(50));
            }
            q1.pop_timeout(Duration::from_secs(20))
        });
        while ready.load(Ordering::SeqCst) < 1 {
            std::thread::sleep(Duration::from_millis(1));
        }
        go.store(true, Ordering::SeqCst);
        // the consumer notices the flag within 50 us and needs a few dozen basic blocks (5 us
        // each on the virtual clock) to get into its wait
        std::thread::sleep(Duration::from_micros(rng.below(500) as u64));
        let before = q.verif_snapshot();
        q.push(7);
        std::thread::sleep(Duration::from_secs(2));
        let s = q.verif_snapshot();
        out.eval(format!("entry-race|waiting_at_push{}|attempt{}", before.blocked_pop_timeout, attempt.min(1)));
        out.count("entry_race_attempts", 1);
        if before.blocked_pop_timeout == 0 {
            out.count("entry_race_pushes_before_the_consumer_waited", 1);
        }
        if s.elems > 0 && s.blocked_pop_timeout > 0 {
            out.violation(
                "C07/miri/queue/element-queued-while-timed-receiver-blocked",
                "an element pushed while a consumer was entering pop_timeout(20 s) is still queued two virtual seconds later and the consumer is still waiting".to_string(),
                format!("at push {:?}, two seconds later {:?}", before, s),
            );
        }
        loop {
            let s = q.verif_snapshot();
            if s.blocked_pop_timeout == 0 || timed.is_finished() {
                break;
            }
            q.unblock();
            std::thread::sleep(Duration::from_millis(1));
        }
        let _ = timed.join();
        if !out.violations.is_empty() {
            break;
        }
    }
    if out.samples.is_empty() {
        out.samples.push("entry race: 10 attempts, a push at a seeded instant around the consumer's entry into pop_timeout".to_string());
    }
}

fn scenario_queue(rng: &mut Rng, out: &mut Out) {
    match rng.below(3) {
        0 => return directed_deadline_race(rng, out, false),
        1 => return directed_entry_race(rng, out),
        _ => {}
    }
    let q: Arc<MessagesQueue<u32>> = MessagesQueue::with_capacity(8);
    // directed variant (half of the runs): one consumer blocked in pop, one timed consumer with
    // a timeout of a few ms that leaves for a while after an empty-handed return, one producer
    // whose pushes are spread over several timeout periods, so that pushes land in every phase
    // of the timed consumer's wait, including its last millisecond
    let directed = rng.below(2) == 0;
    let t_dir = [900u64, 2000, 5000][rng.below(3)];
    let producers = if directed { 1 } else { rng.range(1, 3) };
    let per = if directed { 2 * rng.range(3, 8) } else { rng.range(1, 5) };
    let consumers = if directed { 2 } else { rng.range(1, 4) };
    let got: Arc<Mutex<Vec<(usize, u32)>>> = Arc::new(Mutex::new(Vec::new()));
    let stop = Arc::new(std::sync::atomic::AtomicBool::new(false));
    let alive = Arc::new(AtomicUsize::new(consumers));
    let mut scripts = Vec::new();
    let mut hs = Vec::new();
    for c in 0..consumers {
        // consumer 0 blocks in pop and never leaves
        let ops: Vec<Op> = if c == 0 {
            vec![Op::Pop]
        } else if directed {
            vec![Op::PopTimeout(t_dir)]
        } else {
            (0..rng.range(1, 2))
                .map(|_| match rng.below(4) {
                    0 => Op::Pop,
                    1 => Op::TryPop,
                    _ => Op::PopTimeout([0u64, 300, 900, 2000, 5000][rng.below(5)]),
                })
                .collect()
        };
        let leave_ms = if directed { [1u64, 1, 3][rng.below(3)] } else { [0u64, 0, 7, 40][rng.below(4)] };
        let exit = !directed && rng.below(3) == 0;
        scripts.push(format!("{:?} leave_ms={} exit={}", ops, leave_ms, exit));
        let (q, got, stop, alive) = (q.clone(), got.clone(), stop.clone(), alive.clone());
        hs.push(std::thread::spawn(move || {
            let mut i = 0;
            loop {
                let op = ops[i % ops.len()].clone();
                i += 1;
                let blocking = matches!(op, Op::Pop);
                let r = match op {
                    Op::Pop => q.pop(),
                    Op::PopTimeout(us) => q.pop_timeout(Duration::from_micros(us)),
                    Op::TryPop => q.try_pop(),
                };
                match r {
                    Some(v) => got.lock().unwrap().push((c, v)),
                    None => {
                        if stop.load(Ordering::SeqCst) {
                            break;
                        }
                        if blocking {
                            continue; // kicked by the monitor
                        }
                        if exit {
                            break;
                        }
                        // never spin: every loop iteration costs interpreter time
                        std::thread::sleep(Duration::from_millis(leave_ms.max(1)));
                    }
                }
            }
            alive.fetch_sub(1, Ordering::SeqCst);
        }));
    }
    let mut ps = Vec::new();
    for p in 0..producers {
        let q = q.clone();
        // directed: pushes come in pairs. The first push of a pair wakes the consumer that has been
        // waiting longest (the blocked pop), which then queues up again behind the timed consumer;
        // the second push, a fraction of the timeout later, reaches the timed consumer in the later
        // part of its wait.
        let gaps: Vec<u64> = (0..per)
            .map(|i| {
                if !directed {
                    rng.below(6000) as u64
                } else if i % 2 == 1 {
                    50 + rng.below(t_dir as usize) as u64
                } else {
                    t_dir + rng.below(2 * t_dir as usize) as u64
                }
            })
            .collect();
        ps.push(std::thread::spawn(move || {
            for (i, g) in gaps.iter().enumerate() {
                std::thread::sleep(Duration::from_micros(*g));
                q.push((p * 1000 + i) as u32);
            }
        }));
    }
    for p in ps {
        p.join().unwrap();
    }
    let total = producers * per;
    // ten seconds of virtual time: the clock also advances while code executes (5 us per basic
    // block), so this is a budget of two million basic blocks for the other threads; once they are
    // all blocked the clock simply jumps
    std::thread::sleep(Duration::from_secs(3));
    let s = q.verif_snapshot();
    let delivered = got.lock().unwrap().len();
    out.eval(format!("queue|d{}|P{}|C{}|{:?}", directed, producers, consumers, scripts));
    if directed {
        out.count("directed_runs", 1);
    }
    out.count("ids_pushed", total as u64);
    out.count("ids_delivered", delivered as u64);
    out.count(&format!("snapshot:elems={},blocked_pop={},blocked_timed={}", s.elems.min(3), s.blocked_pop, s.blocked_pop_timeout), 1);
    if s.elems > 0 && s.blocked_pop > 0 {
        out.violation(
            "C07/miri/queue/lost-wakeup",
            format!("{} element(s) queued while {} consumer(s) are blocked in pop(), one virtual second after the last push", s.elems, s.blocked_pop),
            format!("snapshot {:?}; consumers {:?}; delivered {:?}", s, scripts, got.lock().unwrap()),
        );
    } else if delivered != total {
        out.violation(
            "C07/miri/queue/not-delivered",
            format!("{} of {} pushed ids delivered although a consumer is always waiting", delivered, total),
            format!("snapshot {:?}; consumers {:?}", s, scripts),
        );
    }
    let mut ids: Vec<u32> = got.lock().unwrap().iter().map(|x| x.1).collect();
    ids.sort();
    let n0 = ids.len();
    ids.dedup();
    if ids.len() != n0 {
        out.violation("C07/miri/queue/duplicate", "an id was delivered twice".into(), format!("{:?}", got.lock().unwrap()));
    }
    if consumers == 1 {
        // single consumer: per-producer order
        let g = got.lock().unwrap();
        for p in 0..producers {
            let seq: Vec<u32> = g.iter().map(|x| x.1).filter(|v| (*v as usize) / 1000 == p).collect();
            if seq.windows(2).any(|w| w[0] >= w[1]) {
                out.violation("C07/miri/queue/order", format!("single consumer saw producer {} out of order", p), format!("{:?}", seq));
            }
        }
    }
    if out.samples.is_empty() {
        out.samples.push(format!("queue: producers={} per={} consumers={:?} delivered={} snapshot={:?}", producers, per, scripts, delivered, s));
    }
    // wind down
    stop.store(true, Ordering::SeqCst);
    while alive.load(Ordering::SeqCst) > 0 {
        q.unblock();
        std::thread::sleep(Duration::from_millis(1));
    }
    for h in hs {
        h.join().unwrap();
    }
}

// ---------------------------------------------------------------------------------------------
// C17: unblock releases exactly one receiver; tokens queued ahead; timing bounds (virtual clock)

fn scenario_queue_unblock(rng: &mut Rng, out: &mut Out) {
    if rng.below(2) == 0 {
        return directed_deadline_race(rng, out, true);
    }
    let q: Arc<MessagesQueue<u32>> = MessagesQueue::with_capacity(8);
    let c = rng.range(1, 4);
    let u = rng.range(0, c);
    let p = rng.range(0, 4);
    let timed = rng.below(2) == 0; // add a timed receiver that may steal notifications
    let released = Arc::new(AtomicUsize::new(0));
    let got = Arc::new(Mutex::new(Vec::new()));
    let stop = Arc::new(std::sync::atomic::AtomicBool::new(false));
    let mut hs = Vec::new();
    for _ in 0..c {
        let (q, released, got) = (q.clone(), released.clone(), got.clone());
        hs.push(std::thread::spawn(move || loop {
            match q.pop() {
                Some(v) => got.lock().unwrap().push(v),
                None => {
                    released.fetch_add(1, Ordering::SeqCst);
                    break;
                }
            }
        }));
    }
    let timed_tokens = Arc::new(AtomicUsize::new(0));
    let th = if timed {
        let (q, got, stop) = (q.clone(), got.clone(), stop.clone());
        let t_us = [300u64, 900, 3000][rng.below(3)];
        let leave = rng.below(2) == 0;
        Some(std::thread::spawn(move || {
            while !stop.load(Ordering::SeqCst) {
                match q.pop_timeout(Duration::from_micros(t_us)) {
                    Some(v) => got.lock().unwrap().push(v),
                    None => {
                        std::thread::sleep(Duration::from_millis(if leave { 20 } else { 1 }));
                    }
                }
            }
        }))
    } else {
        None
    };
    let _ = timed_tokens;
    std::thread::sleep(Duration::from_millis(5));
    // racing unblocks and pushes
    let q2 = q.clone();
    let ugaps: Vec<u64> = (0..u).map(|_| rng.below(3000) as u64).collect();
    let ut = std::thread::spawn(move || {
        for g in ugaps {
            std::thread::sleep(Duration::from_micros(g));
            q2.unblock();
        }
    });
    let q3 = q.clone();
    let pgaps: Vec<u64> = (0..p).map(|_| rng.below(3000) as u64).collect();
    let pt = std::thread::spawn(move || {
        for (i, g) in pgaps.iter().enumerate() {
            std::thread::sleep(Duration::from_micros(*g));
            q3.push(i as u32);
        }
    });
    ut.join().unwrap();
    pt.join().unwrap();
    std::thread::sleep(Duration::from_secs(3));
    let s = q.verif_snapshot();
    let rel = released.load(Ordering::SeqCst);
    out.eval(format!("unblock|c{}|u{}|p{}|timed{}", c, u, p, timed));
    out.count("unblocks", u as u64);
    out.count("released_recv", rel as u64);
    // with a timed receiver around, a token may legitimately be consumed by it: then fewer
    // blocked receivers are released, but a token must never stay queued while one is blocked
    if s.tokens > 0 && s.blocked_pop > 0 {
        out.violation(
            "C17/miri/queue_unblock/token-queued-while-receiver-blocked",
            format!("{} token(s) queued while {} receiver(s) are blocked in pop(), one virtual second after the last unblock", s.tokens, s.blocked_pop),
            format!("{:?} c={} u={} p={} timed={}", s, c, u, p, timed),
        );
    } else if s.elems > 0 && s.blocked_pop > 0 {
        out.violation(
            "C17/miri/queue_unblock/element-queued-while-receiver-blocked",
            format!("{} element(s) queued while {} receiver(s) are blocked in pop()", s.elems, s.blocked_pop),
            format!("{:?}", s),
        );
    }
    if rel > u {
        out.violation("C17/miri/queue_unblock/more-released-than-unblocks", format!("{} unblocks released {} receivers", u, rel), format!("{:?}", s));
    }
    if !timed && rel != u {
        out.violation("C17/miri/queue_unblock/released-count", format!("{} unblocks released {} of {} blocked receivers", u, rel, c), format!("{:?}", s));
    }
    {
        let mut g = got.lock().unwrap().clone();
        g.sort();
        let n = g.len();
        g.dedup();
        if g.len() != n {
            out.violation("C17/miri/queue_unblock/duplicate", "an element was delivered twice".into(), format!("{:?}", got.lock().unwrap()));
        }
        if u < c && n != p {
            out.violation("C17/miri/queue_unblock/element-lost", format!("{} of {} elements delivered although receivers remained", n, p), format!("{:?}", s));
        }
    }
    if out.samples.is_empty() {
        out.samples.push(format!("queue_unblock: c={} u={} p={} timed={} released={} snapshot={:?}", c, u, p, timed, rel, s));
    }
    stop.store(true, Ordering::SeqCst);
    // release the rest
    loop {
        let s = q.verif_snapshot();
        if s.blocked_pop == 0 {
            break;
        }
        // always kick: on a defective tree a token's own notification may be lost
        q.unblock();
        std::thread::sleep(Duration::from_millis(1));
    }
    for h in hs {
        h.join().unwrap();
    }
    if let Some(t) = th {
        t.join().unwrap();
    }
}

fn scenario_queue_timing(rng: &mut Rng, out: &mut Out) {
    // bounds under the virtual clock: T - 1 ms <= elapsed <= 2T + allowance for an empty-handed
    // return. Wake-ups that give the receiver nothing are produced without any spinning thread:
    // the pusher pushes an element (notify_one goes to the timed receiver) and takes it back
    // itself with try_pop.
    let q: Arc<MessagesQueue<u32>> = MessagesQueue::with_capacity(8);
    let t_ms = [2u64, 5, 20][rng.below(3)];
    let pushes = if rng.below(3) == 0 { 0 } else { rng.range(1, 12) };
    let q2 = q.clone();
    let gaps: Vec<u64> = (0..pushes).map(|_| rng.below((t_ms * 1000 / 2) as usize) as u64 + 100).collect();
    let stolen = Arc::new(AtomicUsize::new(0));
    let stolen2 = stolen.clone();
    let pusher = std::thread::spawn(move || {
        for (i, g) in gaps.iter().enumerate() {
            std::thread::sleep(Duration::from_micros(*g));
            q2.push(i as u32);
            if q2.try_pop().is_some() {
                stolen2.fetch_add(1, Ordering::SeqCst);
            }
        }
    });
    let mut samples = Vec::new();
    for _ in 0..3 {
        let t0 = Instant::now();
        let r = q.pop_timeout(Duration::from_millis(t_ms));
        let el = t0.elapsed();
        samples.push((el.as_micros() as u64, r.is_some()));
        // try_pop never blocks: if it did, Miri would report a deadlock (nobody else pushes)
        let _ = q.try_pop();
    }
    pusher.join().unwrap();
    out.eval(format!("timing|{}ms|push{}", t_ms, pushes));
    out.count("wakeups_taken_back_by_pusher", stolen.load(Ordering::SeqCst) as u64);
    let t_us = t_ms * 1000;
    for (el, got) in &samples {
        if !*got {
            out.count("empty_handed_samples", 1);
            if *el + 1000 < t_us {
                out.violation("C17/miri/queue_timing/early", format!("pop_timeout({} ms) returned empty-handed after {} us of virtual time", t_ms, el), format!("{:?}", samples));
            } else if *el > 2 * t_us + 10_000 + 3_000 * pushes as u64 {
                // every wake-up that yields nothing costs a loop iteration of executed code, which
                // the virtual clock charges (about 3 ms each) but the queue does not deduct
                // the virtual clock also advances while code executes (5 us per basic block; about
                // 3 ms per wait iteration were measured), hence the 10 ms allowance on top of 2T
                out.violation("C17/miri/queue_timing/late", format!("pop_timeout({} ms) returned empty-handed after {} us of virtual time", t_ms, el), format!("{:?}", samples));
            }
            if *el > t_us + t_us / 4 + 3000 {
                out.count("empty_handed_after_stolen_wakeup", 1);
            }
        }
    }
    if out.samples.is_empty() {
        out.samples.push(format!("queue_timing: T={}ms pushes={} taken_back={} (elapsed_us, got)={:?}", t_ms, pushes, stolen.load(Ordering::SeqCst), samples));
    }
}

// ---------------------------------------------------------------------------------------------
// C01 / C06: sequential writers and requests over an in-memory sink

#[derive(Clone)]
struct Sink(Arc<Mutex<Vec<u8>>>);
impl Write for Sink {
    fn write(&mut self, b: &[u8]) -> std::io::Result<usize> {
        self.0.lock().unwrap().extend_from_slice(b);
        Ok(b.len())
    }
    fn flush(&mut self) -> std::io::Result<()> {
        Ok(())
    }
}

fn scenario_seqwriter(rng: &mut Rng, out: &mut Out) {
    let sink = Sink(Arc::new(Mutex::new(Vec::new())));
    let mut b = SequentialWriterBuilder::new(std::io::BufWriter::with_capacity(16, sink.clone()));
    let k = rng.range(2, 5);
    let mut expected = Vec::new();
    let mut plans = Vec::new();
    let mut hs = Vec::new();
    let mut writers: Vec<_> = (0..k).map(|_| b.next().unwrap()).collect();
    // threads are started in a seeded order
    let mut order: Vec<usize> = (0..k).collect();
    for i in (1..k).rev() {
        order.swap(i, rng.below(i + 1));
    }
    let mut slots: Vec<Option<_>> = writers.drain(..).map(Some).collect();
    for i in 0..k {
        let parts = rng.below(4); // 0 = dropped without writing
        let flush = rng.below(2) == 0;
        let mut msg = Vec::new();
        for p in 0..parts {
            msg.extend_from_slice(format!("<{}:{}:{}>", i, p, "x".repeat(rng.below(30))).as_bytes());
        }
        expected.extend_from_slice(&msg);
        plans.push((parts, flush, msg));
    }
    for idx in order.iter().cloned() {
        let mut w = slots[idx].take().unwrap();
        let (parts, flush, msg) = plans[idx].clone();
        hs.push(std::thread::spawn(move || {
            if parts > 0 {
                let step = (msg.len() / parts).max(1);
                let mut pos = 0;
                while pos < msg.len() {
                    let end = (pos + step).min(msg.len());
                    w.write_all(&msg[pos..end]).unwrap();
                    pos = end;
                    if flush {
                        w.flush().unwrap();
                    }
                }
                w.flush().unwrap();
            }
            drop(w);
        }));
    }
    for h in hs {
        h.join().unwrap();
    }
    drop(b);
    let got = sink.0.lock().unwrap().clone();
    out.eval(format!("seqwriter|k{}|{:?}|{:?}", k, plans.iter().map(|p| (p.0, p.1)).collect::<Vec<_>>(), order));
    out.count("writers", k as u64);
    if plans.iter().any(|p| p.0 == 0) {
        out.count("runs_with_unused_writer", 1);
    }
    if got != expected {
        out.violation(
            "C01/miri/seqwriter/order",
            "bytes in the sink are not the in-order concatenation of the writers' messages".into(),
            format!("got {:?} expected {:?} start order {:?}", String::from_utf8_lossy(&got), String::from_utf8_lossy(&expected), order),
        );
    }
    if out.samples.is_empty() {
        out.samples.push(format!("seqwriter: k={} start order {:?} parts/flush {:?} sink={:?}", k, order, plans.iter().map(|p| (p.0, p.1)).collect::<Vec<_>>(), String::from_utf8_lossy(&got)));
    }
}

/// C11 / C03: the reader turn token. k readers are handed out in order over one in-memory
/// source; threads use them in a seeded order. Reader i must see exactly the i-th slice of the
/// source, whether its predecessors read their share, read part of it, or were dropped unused
/// (a reader that reads less than its share is modelled by an EqualReader, which discards the
/// rest when dropped - the way request bodies are framed).
fn scenario_seqreader(rng: &mut Rng, out: &mut Out) {
    let k = rng.range(2, 5);
    let lens: Vec<usize> = (0..k).map(|_| rng.range(1, 40)).collect();
    let mut data = Vec::new();
    for (i, l) in lens.iter().enumerate() {
        data.extend(std::iter::repeat(b'a' + i as u8).take(*l));
    }
    data.extend_from_slice(b"TAIL");
    let mut b = SequentialReaderBuilder::new(std::io::BufReader::with_capacity(8, Cursor::new(data)));
    let mut readers: Vec<Option<_>> = (0..k).map(|_| Some(b.next().unwrap())).collect();
    let tail_reader = b.next().unwrap();
    let mut order: Vec<usize> = (0..k).collect();
    for i in (1..k).rev() {
        order.swap(i, rng.below(i + 1));
    }
    let plans: Vec<usize> = (0..k).map(|_| rng.below(3)).collect(); // 0 read all, 1 read part, 2 read nothing
    let results: Arc<Mutex<Vec<(usize, Vec<u8>)>>> = Arc::new(Mutex::new(Vec::new()));
    let mut hs = Vec::new();
    for idx in order.iter().cloned() {
        let r = readers[idx].take().unwrap();
        let (len, plan, results) = (lens[idx], plans[idx], results.clone());
        hs.push(std::thread::spawn(move || {
            let (mut er, _) = EqualReader::new(r, len);
            let mut got = Vec::new();
            let want = match plan {
                0 => len,
                1 => len / 2,
                _ => 0,
            };
            let mut buf = [0u8; 7];
            while got.len() < want {
                let n = (want - got.len()).min(buf.len());
                let m = er.read(&mut buf[..n]).unwrap();
                if m == 0 {
                    break;
                }
                got.extend_from_slice(&buf[..m]);
            }
            results.lock().unwrap().push((idx, got));
            drop(er);
        }));
    }
    for h in hs {
        h.join().unwrap();
    }
    let mut tail = Vec::new();
    let mut tr = tail_reader;
    tr.read_to_end(&mut tail).unwrap();
    out.eval(format!("seqreader|k{}|{:?}|{:?}", k, plans, order));
    out.count("readers", k as u64);
    for (idx, got) in results.lock().unwrap().iter() {
        if got.iter().any(|c| *c != b'a' + *idx as u8) {
            out.violation(
                "C11/miri/seqreader/foreign-bytes",
                format!("reader {} obtained bytes of another reader's share: {:?}", idx, String::from_utf8_lossy(got)),
                format!("lens {:?} plans {:?} start order {:?}", lens, plans, order),
            );
        }
        let want = match plans[*idx] {
            0 => lens[*idx],
            1 => lens[*idx] / 2,
            _ => 0,
        };
        if got.len() != want {
            out.violation("C11/miri/seqreader/short", format!("reader {} obtained {} of {} bytes", idx, got.len(), want), String::new());
        }
    }
    if tail != b"TAIL" {
        out.violation(
            "C11/miri/seqreader/boundary",
            format!("after all readers were used/dropped the source is not positioned after their shares: {:?}", String::from_utf8_lossy(&tail)),
            format!("lens {:?} plans {:?} start order {:?}", lens, plans, order),
        );
    }
    if out.samples.is_empty() {
        out.samples.push(format!("seqreader: lens {:?} plans {:?} (0 all, 1 half, 2 none) start order {:?} tail {:?}", lens, plans, order, String::from_utf8_lossy(&tail)));
    }
}

fn scenario_request_once(rng: &mut Rng, out: &mut Out) {
    let sink = Sink(Arc::new(Mutex::new(Vec::new())));
    let mut b = SequentialWriterBuilder::new(std::io::BufWriter::with_capacity(64, sink.clone()));
    let k = rng.range(1, 4);
    let mut reqs = Vec::new();
    for i in 0..k {
        let w = b.next().unwrap();
        let body = format!("body{}", i);
        let headers = vec![Header::from_bytes(&b"Content-Length"[..], body.len().to_string().as_bytes()).unwrap()];
        let r = new_request(false, Method::Post, format!("/r/{}", i), HTTPVersion(1, 1), headers, None, Cursor::new(body.into_bytes()), w).unwrap();
        reqs.push(Some(r));
    }
    let mut order: Vec<usize> = (0..k).collect();
    for i in (1..k).rev() {
        order.swap(i, rng.below(i + 1));
    }
    let mut actions = Vec::new();
    let mut hs = Vec::new();
    for _ in 0..k {
        actions.push(rng.below(3));
    }
    for idx in order.iter().cloned() {
        let mut rq = reqs[idx].take().unwrap();
        let act = actions[idx];
        hs.push(std::thread::spawn(move || match act {
            0 => {
                let mut s = String::new();
                rq.as_reader().read_to_string(&mut s).unwrap();
                rq.respond(Response::from_string(format!("resp{}", idx)).with_status_code(200 + idx as u16)).unwrap();
            }
            1 => drop(rq),
            _ => {
                let mut w = rq.into_writer();
                w.write_all(format!("HTTP/1.1 {} Raw\r\nContent-Length: 0\r\n\r\n", 290 + idx).as_bytes()).unwrap();
                w.flush().unwrap();
            }
        }));
    }
    for h in hs {
        h.join().unwrap();
    }
    drop(b);
    let got = String::from_utf8_lossy(&sink.0.lock().unwrap()).to_string();
    // status lines in order
    let statuses: Vec<u16> = got
        .split("HTTP/1.1 ")
        .skip(1)
        .filter_map(|s| s.get(0..3).and_then(|c| c.parse().ok()))
        .collect();
    let want: Vec<u16> = (0..k).map(|i| match actions[i] { 0 => 200 + i as u16, 1 => 500, _ => 290 + i as u16 }).collect();
    out.eval(format!("request_once|k{}|{:?}|{:?}", k, actions, order));
    out.count("requests", k as u64);
    if statuses != want {
        out.violation(
            "C06/miri/request_once/statuses",
            format!("messages in the sink have statuses {:?}, expected exactly {:?}", statuses, want),
            format!("actions {:?} (0 respond, 1 drop, 2 raw writer), start order {:?}, sink: {}", actions, order, got),
        );
    }
    if out.samples.is_empty() {
        out.samples.push(format!("request_once: actions {:?} start order {:?} statuses {:?}", actions, order, statuses));
    }
}

// ---------------------------------------------------------------------------------------------
// C03: framing over in-memory readers (UB detection in ascii / chunked_transfer on this path)

struct Shared(Arc<Mutex<Cursor<Vec<u8>>>>);
impl Read for Shared {
    fn read(&mut self, b: &mut [u8]) -> std::io::Result<usize> {
        // hand out at most 7 bytes at a time: short reads
        let n = b.len().min(7);
        self.0.lock().unwrap().read(&mut b[..n])
    }
}

fn scenario_framing(rng: &mut Rng, out: &mut Out) {
    for _ in 0..6 {
        let chunked = rng.below(2) == 0;
        let len = [0usize, 1, 5, 100, 1024, 1025, 1500][rng.below(7)];
        let body: Vec<u8> = (0..len).map(|i| b'a' + (i % 26) as u8).collect();
        let sentinel = b"SENTINEL".to_vec();
        let mut wire = Vec::new();
        let headers = if chunked {
            let mut pos = 0;
            while pos < len {
                let n = rng.range(1, 300).min(len - pos);
                wire.extend_from_slice(format!("{:x}\r\n", n).as_bytes());
                wire.extend_from_slice(&body[pos..pos + n]);
                wire.extend_from_slice(b"\r\n");
                pos += n;
            }
            wire.extend_from_slice(b"0\r\n\r\n");
            vec![Header::from_bytes(&b"Transfer-Encoding"[..], &b"chunked"[..]).unwrap()]
        } else {
            wire.extend_from_slice(&body);
            vec![Header::from_bytes(&b"content-length"[..], len.to_string().as_bytes()).unwrap()]
        };
        wire.extend_from_slice(&sentinel);
        let cur = Arc::new(Mutex::new(Cursor::new(wire)));
        let mut rq = new_request(false, Method::Put, "/f".into(), HTTPVersion(1, 1), headers, None, Shared(cur.clone()), std::io::sink()).unwrap();
        let consume = rng.below(3); // 0 all, 1 part, 2 none
        let mut got = Vec::new();
        if consume != 2 {
            let limit = if consume == 0 { usize::MAX } else { len / 2 };
            let mut buf = vec![0u8; [1usize, 3, 64, 2000][rng.below(4)]];
            while got.len() < limit {
                let want = buf.len().min(limit - got.len());
                let n = rq.as_reader().read(&mut buf[..want]).unwrap();
                if n == 0 {
                    break;
                }
                got.extend_from_slice(&buf[..n]);
            }
        }
        let bl = rq.body_length();
        drop(rq);
        let mut rest = Vec::new();
        cur.lock().unwrap().read_to_end(&mut rest).unwrap();
        out.eval(format!("framing|chunked{}|len{}|consume{}", chunked, len, consume));
        if consume == 0 && got != body {
            out.violation("C03/miri/framing/body", format!("body read differs ({} vs {} bytes)", got.len(), body.len()), format!("chunked={} len={}", chunked, len));
        }
        if consume == 1 && got[..] != body[..got.len()] {
            out.violation("C03/miri/framing/body-prefix", "body prefix differs".into(), format!("chunked={} len={}", chunked, len));
        }
        if rest != sentinel {
            out.violation(
                "C03/miri/framing/boundary",
                format!("after the request was dropped the source is not positioned at the first byte after the body ({} bytes left, expected {})", rest.len(), sentinel.len()),
                format!("chunked={} len={} consume={}", chunked, len, consume),
            );
        }
        if !chunked && bl != Some(len) {
            out.violation("C03/miri/framing/body_length", format!("body_length() = {:?}, declared {}", bl, len), String::new());
        }
        if out.samples.is_empty() {
            out.samples.push(format!("framing: chunked={} len={} consume={} left_in_source={}", chunked, len, consume, rest.len()));
        }
    }
}

// ---------------------------------------------------------------------------------------------
// C08 / C20: task pool

fn scenario_pool_burst(rng: &mut Rng, out: &mut Out) {
    let pool = TaskPool::new();
    // let the four initial workers go idle (or not: seeded)
    std::thread::sleep(Duration::from_millis([0u64, 1, 10, 2000][rng.below(4)]));
    let n = [2usize, 4, 5, 6, 8][rng.below(5)];
    let started = Arc::new(AtomicUsize::new(0));
    let (tx, rx) = channel::<()>();
    let rx = Arc::new(Mutex::new(rx));
    for _ in 0..n {
        let (started, rx) = (started.clone(), rx.clone());
        let mut done = false;
        pool.spawn(Box::new(move || {
            if done {
                return;
            }
            done = true;
            started.fetch_add(1, Ordering::SeqCst);
            // stay busy until released: a connection that stays open
            let _ = rx.lock().unwrap().recv();
        }));
        if rng.below(3) == 0 {
            std::thread::yield_now();
        }
    }
    // thirty seconds of virtual time (a budget of six million basic blocks for thread start-up;
    // the clock jumps once everybody is blocked): every worker ran until it blocked
    std::thread::sleep(Duration::from_secs(30));
    let s = started.load(Ordering::SeqCst);
    let snap = pool.verif_snapshot();
    out.eval(format!("pool_burst|N{}", n));
    out.count(&format!("snapshot:todo={},waiting={},active={}", snap.0, snap.1, snap.2), 1);
    if s != n {
        out.violation(
            "C08/miri/pool_burst/task-not-started",
            format!("{} of {} simultaneously spawned tasks started while none finished; (queued, idle, running) = {:?}", s, n, snap),
            String::new(),
        );
    }
    if out.samples.is_empty() {
        out.samples.push(format!("pool_burst: N={} started={} (todo, waiting, active)={:?}", n, s, snap));
    }
    drop(tx); // releases every task
    std::thread::sleep(Duration::from_secs(2));
    drop(pool);
    // idle workers leave within the idle period once the pool is gone
    std::thread::sleep(Duration::from_secs(30));
}

fn scenario_pool_retire(rng: &mut Rng, out: &mut Out) {
    let pool = TaskPool::new();
    std::thread::sleep(Duration::from_secs(3));
    let base = pool.verif_snapshot().2;
    let n = [5usize, 8, 12][rng.below(3)];
    let started = Arc::new(AtomicUsize::new(0));
    let (tx, rx) = channel::<()>();
    let rx = Arc::new(Mutex::new(rx));
    for _ in 0..n {
        let (started, rx) = (started.clone(), rx.clone());
        pool.spawn(Box::new(move || {
            started.fetch_add(1, Ordering::SeqCst);
            let _ = rx.lock().unwrap().recv();
        }));
    }
    std::thread::sleep(Duration::from_secs(30));
    let peak = pool.verif_snapshot().2;
    if std::env::var("VM_DEBUG").is_ok() {
        eprintln!("peak snapshot {:?} started {}", pool.verif_snapshot(), started.load(Ordering::SeqCst));
    }
    drop(tx);
    // idle period (5 s) plus a generous margin, virtual time
    for _ in 0..6 {
        std::thread::sleep(Duration::from_secs(5));
        if std::env::var("VM_DEBUG").is_ok() {
            eprintln!("idle snapshot {:?}", pool.verif_snapshot());
        }
    }
    let after = pool.verif_snapshot();
    out.eval(format!("pool_retire|N{}", n));
    out.count(&format!("threads:base={},peak={},after={}", base, peak, after.2), 1);
    if started.load(Ordering::SeqCst) != n {
        out.violation("C20/miri/pool_retire/burst-not-served", format!("{} of {} tasks started", started.load(Ordering::SeqCst), n), format!("{:?}", after));
    } else if after.2 > base {
        out.violation(
            "C20/miri/pool_retire/not-reclaimed",
            format!("{} worker threads before the burst, {} at the peak, still {} after 30 virtual seconds of idleness", base, peak, after.2),
            String::new(),
        );
    }
    // dispatch after retirement
    let again = Arc::new(AtomicUsize::new(0));
    let m = rng.range(1, 6);
    for _ in 0..m {
        let again = again.clone();
        pool.spawn(Box::new(move || {
            again.fetch_add(1, Ordering::SeqCst);
        }));
    }
    std::thread::sleep(Duration::from_secs(20));
    if again.load(Ordering::SeqCst) != m {
        out.violation("C20/miri/pool_retire/no-dispatch-after-retirement", format!("{} of {} tasks ran after the pool had shrunk", again.load(Ordering::SeqCst), m), format!("{:?}", pool.verif_snapshot()));
    }
    if out.samples.is_empty() {
        out.samples.push(format!("pool_retire: N={} base={} peak={} after={:?} second burst {}/{}", n, base, peak, after, again.load(Ordering::SeqCst), m));
    }
    drop(pool);
    // the remaining idle workers leave within the idle period once the pool is gone
    std::thread::sleep(Duration::from_secs(30));
}

/// Directed scenario: a task is dispatched at the very moment the idle period of the only idle
/// (surplus) worker expires while all other workers are busy. Whatever the interleaving, the
/// task must run: either the worker takes it before retiring or a new thread is started.
fn scenario_pool_retire_race(rng: &mut Rng, out: &mut Out) {
    let pool = TaskPool::new();
    std::thread::sleep(Duration::from_secs(3));
    let (tx, rx) = channel::<()>();
    let rx = Arc::new(Mutex::new(rx));
    let started = Arc::new(AtomicUsize::new(0));
    for _ in 0..4 {
        let (started, rx) = (started.clone(), rx.clone());
        pool.spawn(Box::new(move || {
            started.fetch_add(1, Ordering::SeqCst);
            let _ = rx.lock().unwrap().recv();
        }));
    }
    // the fifth task needs a fifth worker, which is idle right afterwards (timed wait: 5 s)
    let short_done = Arc::new(AtomicUsize::new(0));
    let sd = short_done.clone();
    pool.spawn(Box::new(move || {
        sd.fetch_add(1, Ordering::SeqCst);
    }));
    // wait until exactly one worker idles while the four others are busy
    let mut guard = 0;
    loop {
        let s = pool.verif_snapshot();
        if short_done.load(Ordering::SeqCst) == 1 && started.load(Ordering::SeqCst) == 4 && s.0 == 0 && s.1 == 1 {
            break;
        }
        std::thread::sleep(Duration::from_micros(100));
        guard += 1;
        if guard > 200_000 {
            out.eval("pool_retire_race|setup-failed".into());
            drop(tx);
            return;
        }
    }
    // several attempts per run: after each dispatch exactly one worker is idle again
    for attempt in 0..5 {
        // wait until exactly one worker idles (the four others stay busy)
        let mut guard = 0;
        loop {
            let s = pool.verif_snapshot();
            if s.0 == 0 && s.1 == 1 {
                break;
            }
            std::thread::sleep(Duration::from_micros(100));
            guard += 1;
            if guard > 200_000 {
                break;
            }
        }
        let t_obs = Instant::now();
        let snap0 = pool.verif_snapshot();
        // dispatch around the expiry of the idle period; how long the worker had already been
        // waiting when we noticed is unknown (several virtual ms), so the phase is swept
        let phase_us = rng.below(12_000) as u64; // target = t_obs + 5 s - 12 ms + phase
        let target = t_obs + Duration::from_micros(5_000_000 - 12_000 + phase_us);
        let now = Instant::now();
        if target > now + Duration::from_millis(1) {
            std::thread::sleep(target - now - Duration::from_millis(1));
        }
        while Instant::now() < target {
            std::hint::spin_loop();
        }
        let ran = Arc::new(AtomicUsize::new(0));
        let r2 = ran.clone();
        pool.spawn(Box::new(move || {
            r2.fetch_add(1, Ordering::SeqCst);
        }));
        let snap1 = pool.verif_snapshot();
        // 20 virtual seconds: the task has run long ago, whoever took it
        std::thread::sleep(Duration::from_secs(20));
        let snap2 = pool.verif_snapshot();
        out.eval(format!("pool_retire_race|phase{}", phase_us / 250));
        out.count(&format!("after_dispatch:todo={},waiting={},active={}", snap1.0, snap1.1, snap1.2), 1);
        if ran.load(Ordering::SeqCst) != 1 {
            out.violation(
                "C08/miri/pool_retire_race/task-stranded",
                format!(
                    "a task dispatched around the expiry of the only idle worker's idle period (phase {} us) never ran while the four other workers were busy; (queued, idle, running): before {:?}, right after dispatch {:?}, 20 s later {:?}",
                    phase_us as i64 - 12_000,
                    snap0,
                    snap1,
                    snap2
                ),
                String::new(),
            );
            break;
        }
        if out.samples.len() < 2 {
            out.samples.push(format!("pool_retire_race: attempt {} phase {} us, snapshots {:?} -> {:?} -> {:?}", attempt, phase_us as i64 - 12_000, snap0, snap1, snap2));
        }
        // the worker that ran the task is idle again with 5 workers alive? if the pool shrank to
        // four, grow it again with a short task while the four are busy
        let s = pool.verif_snapshot();
        if s.1 == 0 {
            pool.spawn(Box::new(|| {}));
        }
    }
    drop(tx);
    std::thread::sleep(Duration::from_secs(2));
    drop(pool);
    std::thread::sleep(Duration::from_secs(30));
}

fn scenario_probe(out: &mut Out) {
    // deterministic ordering probe: timed consumer first, blocked consumer second, then one push
    let q: Arc<MessagesQueue<u32>> = MessagesQueue::with_capacity(8);
    let q1 = q.clone();
    let t1 = std::thread::spawn(move || q1.pop_timeout(Duration::from_micros(900)));
    std::thread::sleep(Duration::from_micros(100));
    let q0 = q.clone();
    let t0 = std::thread::spawn(move || q0.pop());
    std::thread::sleep(Duration::from_micros(200));
    let before = q.verif_snapshot();
    q.push(7);
    std::thread::sleep(Duration::from_secs(1));
    let s = q.verif_snapshot();
    out.samples.push(format!("probe: before push {:?}; one second later {:?}", before, s));
    out.eval("probe".into());
    q.unblock();
    q.unblock();
    let r1 = t1.join().unwrap();
    let r0 = t0.join().unwrap();
    out.samples.push(format!("timed got {:?}, blocked got {:?}", r1, r0));
}

fn main() {
    let args: Vec<String> = std::env::args().collect();
    let scenario = args.get(1).cloned().unwrap_or_else(|| "noop".into());
    let seed: u64 = args.get(2).and_then(|s| s.parse().ok()).unwrap_or(1);
    let prop = args.get(3).cloned().unwrap_or_else(|| "C00".into());
    // Miri randomises allocation addresses from its own seed (-Zmiri-seed / -Zmiri-many-seeds):
    // folding an address into the PRNG makes the scenario parameters vary with the Miri seed too,
    // and re-running the same Miri seed reproduces them.
    let probe = Box::new(0u8);
    let entropy = (&*probe as *const u8 as usize as u64) >> 4;
    let mut rng = Rng(seed.wrapping_mul(0x2545_F491_4F6C_DD1D) ^ fnv(scenario.as_bytes()) ^ entropy.wrapping_mul(0x9E37_79B9_7F4A_7C15));
    let mut out = Out { prop, scenario: scenario.clone(), evaluations: 0, sigs: vec![], counts: vec![], samples: vec![], violations: vec![] };
    let reps = match scenario.as_str() {
        "queue" | "queue_unblock" => 2,
        "queue_timing" => 2,
        "seqwriter" | "request_once" | "seqreader" => 3,
        _ => 1,
    };
    for _ in 0..reps {
        match scenario.as_str() {
            "noop" => {}
            "probe" => scenario_probe(&mut out),
            "queue" => scenario_queue(&mut rng, &mut out),
            "queue_unblock" => scenario_queue_unblock(&mut rng, &mut out),
            "queue_timing" => scenario_queue_timing(&mut rng, &mut out),
            "seqwriter" => scenario_seqwriter(&mut rng, &mut out),
            "seqreader" => scenario_seqreader(&mut rng, &mut out),
            "request_once" => scenario_request_once(&mut rng, &mut out),
            "framing" => scenario_framing(&mut rng, &mut out),
            "pool_burst" => scenario_pool_burst(&mut rng, &mut out),
            "pool_retire" => scenario_pool_retire(&mut rng, &mut out),
            "pool_retire_race" => scenario_pool_retire_race(&mut rng, &mut out),
            other => {
                eprintln!("unknown scenario {}", other);
                std::process::exit(2);
            }
        }
    }
    out.print(seed);
}
